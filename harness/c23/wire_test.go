package c23

// Hand-written codec for the "Commands" (declare commands) play packet, 1.13+ — deliberately
// independent of Gate's AvailableCommands / brigadier codecs, which are under observation.
//
//	VarInt count, count x node, VarInt rootIndex
//	node: flags byte (0x03 kind: 0 root 1 literal 2 argument; 0x04 executable; 0x08 redirect;
//	      0x10 custom suggestions; 0x20 restricted, defined from 1.21.6 = 771)
//	      VarInt nChildren, nChildren x VarInt index; [VarInt redirect index]
//	      [String name] (literal, argument)
//	      argument: parser (String identifier before 1.19 = 759, VarInt registry id from 759),
//	                parser properties, [String suggestions identifier]
//
// Only parsers whose registry id is the same in every protocol >= 759 are used.

import (
	"encoding/binary"
	"errors"
	"fmt"
	"math"
	"sort"
	"strings"
)

const (
	kindRoot = 0
	kindLit  = 1
	kindArg  = 2
)

var parserID = map[string]int{
	"brigadier:bool": 0, "brigadier:float": 1, "brigadier:double": 2, "brigadier:integer": 3,
	"brigadier:long": 4, "brigadier:string": 5, "minecraft:entity": 6, "minecraft:game_profile": 7,
	"minecraft:block_pos": 8, "minecraft:vec3": 10, "minecraft:item_stack": 14,
}

var parserByID = func() map[int]string {
	m := map[int]string{}
	for k, v := range parserID {
		m[v] = k
	}
	return m
}()

// props is the parser-properties part of an argument node in the generator's terms.
type props struct {
	HasMin, HasMax bool
	Min, Max       float64 // integers up to 2^53 are exact; long bounds are kept small
	Mode           int     // brigadier:string: 0 word 1 quotable 2 greedy; minecraft:entity: flags byte
}

// normal returns the encoding-independent normal form of (parser, props): an absent bound
// and a bound equal to the type's extreme value mean the same to a client.
func (p props) normal(parser string) string {
	lo, hi := math.Inf(-1), math.Inf(1)
	switch parser {
	case "brigadier:integer":
		lo, hi = math.MinInt32, math.MaxInt32
	case "brigadier:long":
		lo, hi = math.MinInt64, math.MaxInt64
	case "brigadier:float":
		lo, hi = -math.MaxFloat32, math.MaxFloat32
	case "brigadier:double":
		lo, hi = -math.MaxFloat64, math.MaxFloat64
	case "brigadier:string":
		return fmt.Sprintf("mode=%d", p.Mode)
	case "minecraft:entity":
		return fmt.Sprintf("flags=%d", p.Mode)
	default:
		return ""
	}
	mn, mx := lo, hi
	if p.HasMin {
		mn = p.Min
	}
	if p.HasMax {
		mx = p.Max
	}
	return fmt.Sprintf("min=%v max=%v", mn, mx)
}

// gnode is a node of a generated tree (backend or proxy side).
type gnode struct {
	ID         int
	Name       string
	Kind       int
	Exec       bool
	Restricted bool // backend only; meaningful on the wire from 771
	Parser     string
	Props      props
	Suggest    string
	Children   []*gnode
	Redirect   *gnode
	// proxy side
	Proxy bool
	Req   string // "" none, "perm.N", "never", "always"
	Depth int
}

func (g *gnode) child(name string) *gnode {
	for _, c := range g.Children {
		if c.Name == name {
			return c
		}
	}
	return nil
}

// dump renders a tree for witnesses and samples.
func dump(g *gnode) string {
	var sb strings.Builder
	seen := map[*gnode]bool{}
	var rec func(n *gnode, ind int)
	rec = func(n *gnode, ind int) {
		sb.WriteString(strings.Repeat(" ", ind))
		switch n.Kind {
		case kindRoot:
			sb.WriteString("<root>")
		case kindLit:
			sb.WriteString(n.Name)
		default:
			fmt.Fprintf(&sb, "<%s:%s %s>", n.Name, n.Parser, n.Props.normal(n.Parser))
		}
		if n.Exec {
			sb.WriteString(" exec")
		}
		if n.Restricted {
			sb.WriteString(" restricted")
		}
		if n.Suggest != "" {
			sb.WriteString(" suggest=" + n.Suggest)
		}
		if n.Req != "" {
			sb.WriteString(" requires=" + n.Req)
		}
		if n.Redirect != nil {
			if n.Redirect.Kind == kindRoot {
				sb.WriteString(" -> <root>")
			} else {
				sb.WriteString(" -> " + n.Redirect.Name)
			}
		}
		if seen[n] {
			sb.WriteString(" (shared, see above)\n")
			return
		}
		seen[n] = true
		sb.WriteString("\n")
		for _, c := range n.Children {
			rec(c, ind+1)
		}
	}
	rec(g, 0)
	return sb.String()
}

// ---- primitives ---------------------------------------------------------------------------

func putVarInt(b []byte, v int) []byte {
	u := uint32(v)
	for u >= 0x80 {
		b = append(b, byte(u)|0x80)
		u >>= 7
	}
	return append(b, byte(u))
}

func putString(b []byte, s string) []byte { return append(putVarInt(b, len(s)), s...) }

type rd struct {
	b   []byte
	off int
	err error
}

func (r *rd) fail(f string, a ...any) {
	if r.err == nil {
		r.err = fmt.Errorf("offset %d: "+f, append([]any{r.off}, a...)...)
	}
}

func (r *rd) byte() byte {
	if r.err != nil || r.off >= len(r.b) {
		r.fail("unexpected end")
		return 0
	}
	v := r.b[r.off]
	r.off++
	return v
}

func (r *rd) varint() int {
	var u uint32
	for i := 0; i < 5; i++ {
		c := r.byte()
		if r.err != nil {
			return 0
		}
		u |= uint32(c&0x7f) << (7 * i)
		if c&0x80 == 0 {
			return int(int32(u))
		}
	}
	r.fail("varint too long")
	return 0
}

func (r *rd) take(n int) []byte {
	if r.err != nil || n < 0 || r.off+n > len(r.b) {
		r.fail("unexpected end (need %d bytes)", n)
		return make([]byte, max(n, 0))
	}
	v := r.b[r.off : r.off+n]
	r.off += n
	return v
}

func (r *rd) str() string { return string(r.take(r.varint())) }

// ---- encoder (fake backend) ---------------------------------------------------------------

// flatten lists every node reachable from root through children and redirects, once.
func flatten(root *gnode) []*gnode {
	var out []*gnode
	seen := map[*gnode]bool{}
	var rec func(n *gnode)
	rec = func(n *gnode) {
		if n == nil || seen[n] {
			return
		}
		seen[n] = true
		out = append(out, n)
		for _, c := range n.Children {
			rec(c)
		}
		rec(n.Redirect)
	}
	rec(root)
	return out
}

// encodeTree serialises the graph under root; order is the node order on the wire (a
// permutation of flatten(root)).
func encodeTree(pv int, root *gnode, order []*gnode) ([]byte, error) {
	idx := map[*gnode]int{}
	for i, n := range order {
		idx[n] = i
	}
	b := putVarInt(nil, len(order))
	for _, n := range order {
		fl := byte(n.Kind)
		if n.Exec {
			fl |= 0x04
		}
		if n.Redirect != nil {
			fl |= 0x08
		}
		if n.Kind == kindArg && n.Suggest != "" {
			fl |= 0x10
		}
		if n.Restricted && pv >= 771 {
			fl |= 0x20
		}
		b = append(b, fl)
		b = putVarInt(b, len(n.Children))
		for _, c := range n.Children {
			b = putVarInt(b, idx[c])
		}
		if n.Redirect != nil {
			b = putVarInt(b, idx[n.Redirect])
		}
		if n.Kind != kindRoot {
			b = putString(b, n.Name)
		}
		if n.Kind == kindArg {
			id, ok := parserID[n.Parser]
			if !ok {
				return nil, fmt.Errorf("generator used unknown parser %q", n.Parser)
			}
			if pv >= 759 {
				b = putVarInt(b, id)
			} else {
				b = putString(b, n.Parser)
			}
			p := n.Props
			switch n.Parser {
			case "brigadier:string":
				b = putVarInt(b, p.Mode)
			case "minecraft:entity":
				b = append(b, byte(p.Mode))
			case "brigadier:integer", "brigadier:long", "brigadier:float", "brigadier:double":
				var f byte
				if p.HasMin {
					f |= 1
				}
				if p.HasMax {
					f |= 2
				}
				b = append(b, f)
				for _, v := range []struct {
					has bool
					v   float64
				}{{p.HasMin, p.Min}, {p.HasMax, p.Max}} {
					if !v.has {
						continue
					}
					switch n.Parser {
					case "brigadier:integer":
						b = binary.BigEndian.AppendUint32(b, uint32(int32(v.v)))
					case "brigadier:long":
						b = binary.BigEndian.AppendUint64(b, uint64(int64(v.v)))
					case "brigadier:float":
						b = binary.BigEndian.AppendUint32(b, math.Float32bits(float32(v.v)))
					default:
						b = binary.BigEndian.AppendUint64(b, math.Float64bits(v.v))
					}
				}
			}
			if n.Suggest != "" {
				b = putString(b, n.Suggest)
			}
		}
	}
	return putVarInt(b, idx[root]), nil
}

// ---- decoder (fake client) ----------------------------------------------------------------

type wnode struct {
	Idx        int
	Flags      byte
	Kind       int
	Exec       bool
	Restricted bool
	Children   []int
	Redirect   int // -1 none
	Name       string
	Parser     string
	PropsNorm  string
	Suggest    string
}

func (w *wnode) label() string {
	switch w.Kind {
	case kindRoot:
		return "<root>"
	case kindLit:
		return w.Name
	}
	return fmt.Sprintf("<%s:%s %s>", w.Name, w.Parser, w.PropsNorm)
}

type wtree struct {
	Nodes []*wnode
	Root  int
}

func decodeTree(pv int, body []byte) (*wtree, error) {
	r := &rd{b: body}
	n := r.varint()
	if r.err != nil || n < 0 || n > 1<<16 {
		return nil, fmt.Errorf("node count %d: %v", n, r.err)
	}
	t := &wtree{}
	for i := 0; i < n; i++ {
		w := &wnode{Idx: i, Redirect: -1}
		w.Flags = r.byte()
		w.Kind = int(w.Flags & 0x03)
		w.Exec = w.Flags&0x04 != 0
		w.Restricted = w.Flags&0x20 != 0
		nc := r.varint()
		if nc < 0 || nc > 1<<16 {
			r.fail("child count %d", nc)
		}
		for k := 0; k < nc && r.err == nil; k++ {
			w.Children = append(w.Children, r.varint())
		}
		if w.Flags&0x08 != 0 {
			w.Redirect = r.varint()
		}
		switch w.Kind {
		case kindRoot:
		case kindLit:
			w.Name = r.str()
		case kindArg:
			w.Name = r.str()
			if pv >= 759 {
				id := r.varint()
				p, ok := parserByID[id]
				if !ok {
					r.fail("parser id %d not known to the monitor", id)
				}
				w.Parser = p
			} else {
				w.Parser = r.str()
				if _, ok := parserID[w.Parser]; !ok {
					r.fail("parser %q not known to the monitor", w.Parser)
				}
			}
			var p props
			switch w.Parser {
			case "brigadier:string":
				p.Mode = r.varint()
			case "minecraft:entity":
				p.Mode = int(r.byte())
			case "brigadier:integer", "brigadier:long", "brigadier:float", "brigadier:double":
				f := r.byte()
				p.HasMin, p.HasMax = f&1 != 0, f&2 != 0
				get := func() float64 {
					switch w.Parser {
					case "brigadier:integer":
						return float64(int32(binary.BigEndian.Uint32(r.take(4))))
					case "brigadier:long":
						return float64(int64(binary.BigEndian.Uint64(r.take(8))))
					case "brigadier:float":
						return float64(math.Float32frombits(binary.BigEndian.Uint32(r.take(4))))
					}
					return math.Float64frombits(binary.BigEndian.Uint64(r.take(8)))
				}
				if p.HasMin {
					p.Min = get()
				}
				if p.HasMax {
					p.Max = get()
				}
			}
			w.PropsNorm = p.normal(w.Parser)
			if w.Flags&0x10 != 0 {
				w.Suggest = r.str()
			}
		default:
			r.fail("node kind 3")
		}
		if r.err != nil {
			return nil, fmt.Errorf("node %d: %w", i, r.err)
		}
		t.Nodes = append(t.Nodes, w)
	}
	t.Root = r.varint()
	if r.err != nil {
		return nil, r.err
	}
	if r.off != len(body) {
		return nil, fmt.Errorf("%d trailing bytes", len(body)-r.off)
	}
	if t.Root < 0 || t.Root >= len(t.Nodes) || t.Nodes[t.Root].Kind != kindRoot {
		return nil, errors.New("root index does not point to a root node")
	}
	for _, w := range t.Nodes {
		for _, c := range w.Children {
			if c < 0 || c >= len(t.Nodes) {
				return nil, fmt.Errorf("node %d: child index %d out of range", w.Idx, c)
			}
		}
		if w.Redirect >= len(t.Nodes) || (w.Flags&0x08 != 0 && w.Redirect < 0) {
			return nil, fmt.Errorf("node %d: redirect index %d out of range", w.Idx, w.Redirect)
		}
	}
	return t, nil
}

func (t *wtree) dump() string {
	var sb strings.Builder
	seen := map[int]bool{}
	var rec func(i, ind int)
	rec = func(i, ind int) {
		w := t.Nodes[i]
		fmt.Fprintf(&sb, "%s#%d %s", strings.Repeat(" ", ind), i, w.label())
		if w.Exec {
			sb.WriteString(" exec")
		}
		if w.Restricted {
			sb.WriteString(" restricted")
		}
		if w.Suggest != "" {
			sb.WriteString(" suggest=" + w.Suggest)
		}
		if w.Redirect >= 0 {
			fmt.Fprintf(&sb, " -> #%d %s", w.Redirect, t.Nodes[w.Redirect].label())
		}
		if seen[i] {
			sb.WriteString(" (see above)\n")
			return
		}
		seen[i] = true
		sb.WriteString("\n")
		kids := append([]int(nil), w.Children...)
		sort.Slice(kids, func(a, b int) bool { return t.Nodes[kids[a]].Name < t.Nodes[kids[b]].Name })
		for _, c := range kids {
			rec(c, ind+1)
		}
	}
	rec(t.Root, 0)
	for i := range t.Nodes {
		if !seen[i] {
			sb.WriteString("(not reachable through children:)\n")
			rec(i, 1)
		}
	}
	return sb.String()
}
