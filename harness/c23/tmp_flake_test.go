package c23

import (
	"fmt"
	"sync"
	"testing"
	"time"

	"go.minekube.com/gate/pkg/edition/java/proto/packet"
	"go.minekube.com/gate/pkg/edition/java/proxy/verifh/e2e"
	"go.minekube.com/gate/pkg/gate/proto"
)

func TestTmpFlake(t *testing.T) {
	e2e.Watchdog = 5 * time.Second
	var wg sync.WaitGroup
	var mu sync.Mutex
	bad := map[string]int{}
	for w := 0; w < 6; w++ {
		wg.Add(1)
		go func(w int) {
			defer wg.Done()
			for i := 0; i < 700; i++ {
				pv := protocols[(i+w)%len(protocols)]
				h, _ := e2e.New(e2e.Options{})
				b, _ := h.AddBackend("lobby", e2e.Always(e2e.Behavior{Mode: e2e.Accept, Threshold: -1}))
				h.Cfg.Try = []string{"lobby"}
				for k := 0; k < 3; k++ {
					c := h.NewClient(e2e.ClientOpts{Protocol: proto.Protocol(pv)})
					name := fmt.Sprintf("F%dx%dx%d", w, i, k)
					res := c.Login(name, "x")
					if !res.Joined {
						mu.Lock(); bad[fmt.Sprintf("nojoin-%d", pv)]++; mu.Unlock()
						continue
					}
					rep := h.AwaitCurrentServer(name, "lobby", 2*time.Second)
					conns := b.Conns()
					bc := conns[len(conns)-1]
					_ = bc.Send(&packet.KeepAlive{RandomID: 777})
					_, _, err := e2e.WaitPacket[*packet.KeepAlive](c.Peer, 3*time.Second)
					if err != nil || !rep {
						mu.Lock(); bad[fmt.Sprintf("proto-%d-reported=%v-keepalive=%v", pv, rep, err)]++; mu.Unlock()
						if err != nil {
							mu.Lock()
							if bad["dumped"] == 0 {
								bad["dumped"] = 1
								fmt.Println("CLIENT LOG", c.Log())
								fmt.Println("BACKEND LOG", bc.Log())
							}
							mu.Unlock()
						}
					}
					c.Close()
				}
			}
		}(w)
	}
	wg.Wait()
	t.Log(bad)
}
