package c23

// The redirect-cycle class of C23: proxy command trees in which a node redirects to the
// dispatcher root ("execute ... run <any command>", the standard brigadier idiom) or to the
// command it lives under. The statement quantifies over "all proxy command trees (nested
// literals/arguments, redirects, per-node requirements)", so these are in scope; the failure
// mode of an unguarded recursive copy is a fatal stack overflow, which no recover() survives,
// so each case runs the same live-proxy workload in a child process (this test binary,
// -test.run TestC23CycleChild) and the parent judges what the child's fake client received
// with the same oracle as the main workload.

import (
	"bytes"
	"encoding/hex"
	"encoding/json"
	"fmt"
	"math/rand"
	"os"
	"os/exec"
	"regexp"
	"runtime/debug"
	"strconv"
	"strings"
	"testing"
	"time"

	"go.minekube.com/brigodier"

	"go.minekube.com/gate/pkg/command"
	"go.minekube.com/gate/pkg/edition/java/proxy/verifh/e2e"
	"go.minekube.com/gate/pkg/edition/java/proxy/verifh/lib"
)

type cycleSpec struct {
	Kind  string   `json:"kind"` // to-root | to-own-command | to-root-under-requirement
	Proto int      `json:"protocol"`
	Seed  int64    `json:"seed"`
	Perms []string `json:"permissions_granted"`
}

// cycleTrees returns the proxy tree of a cycle case in the generator's terms.
//
//	pexec  [requires perm.1 in the third kind]
//	  run -> <root>            (to-root)      | again -> pexec   (to-own-command)
//	  stop (exec)
//	phidden requires perm.0   (never granted in these cases)
//	  sub (exec)
//	pfree (exec)
func cycleTree(kind string) *proxyTree {
	t := &proxyTree{Root: &gnode{Kind: kindRoot, Proxy: true}, ByName: map[string]*gnode{}, prefix: "pc"}
	mk := func(name string, depth int, req string, exec bool) *gnode {
		n := &gnode{ID: t.n, Name: name, Kind: kindLit, Proxy: true, Depth: depth, Req: req, Exec: exec}
		t.n++
		t.ByName[name] = n
		return n
	}
	pexec := mk("pcexec", 1, "", false)
	if kind == "to-root-under-requirement" {
		pexec.Req = "perm.1"
	}
	loop := mk("pcrun", 2, "", false)
	if kind == "to-own-command" {
		loop.Redirect = pexec
	} else {
		loop.Redirect = t.Root
	}
	stop := mk("pcstop", 2, "", true)
	pexec.Children = []*gnode{loop, stop}
	hidden := mk("pchidden", 1, "perm.0", false)
	hidden.Children = []*gnode{mk("pcsub", 2, "", true)}
	free := mk("pcfree", 1, "", true)
	t.Root.Children = []*gnode{pexec, hidden, free}
	return t
}

// registerCycle registers the cycle tree through the public API. The back edge to the own
// command needs the command's node first, so that child is attached with CommandNode.AddChild.
func registerCycle(t *proxyTree, mgr *command.Manager) {
	cmd := brigodier.Command(command.Command(func(*command.Context) error { return nil }))
	for _, c := range t.Root.Children {
		lb := brigodier.Literal(c.Name)
		if rq := requirement(c.Req); rq != nil {
			lb.Requires(rq)
		}
		if c.Exec {
			lb.Executes(cmd)
		}
		var late []*gnode
		for _, k := range c.Children {
			kb := brigodier.Literal(k.Name)
			if k.Exec {
				kb.Executes(cmd)
			}
			switch {
			case k.Redirect == nil:
			case k.Redirect.Kind == kindRoot:
				kb.Redirect(&mgr.Root)
			default:
				late = append(late, k)
				continue
			}
			lb.Then(kb)
		}
		node := mgr.Register(lb)
		for _, k := range late {
			node.AddChild(brigodier.Literal(k.Name).Redirect(node).Build())
		}
	}
}

var cycleRecvRe = regexp.MustCompile(`(?m)^C23-CYCLE-RECEIVED ([0-9a-f]+)$`)

// TestC23CycleChild is the child-process half; it does nothing unless asked to.
func TestC23CycleChild(t *testing.T) {
	raw := os.Getenv("VERIF_C23_CYCLE")
	if raw == "" {
		t.Skip("child of TestC23 only")
	}
	var spec cycleSpec
	if err := json.Unmarshal([]byte(raw), &spec); err != nil {
		t.Fatal(err)
	}
	// fail fast instead of growing a goroutine stack to the default 1 GB limit (which takes
	// minutes with the GC rescanning it); correct code needs a few kilobytes here
	debug.SetMaxStack(8 << 20)
	e2e.Watchdog = 60 * time.Second // the parent allows 120 s
	px := cycleTree(spec.Kind)
	h, err := newWorldWith(px, func(w *world) { registerCycle(px, w.h.P.Command()) })
	if err != nil {
		fmt.Println("C23-CYCLE-ERROR", err)
		return
	}
	perms := map[string]bool{}
	for _, p := range spec.Perms {
		perms[p] = true
	}
	h.perms.set("Cycler", perms)
	s, err := h.join("Cycler", spec.Proto)
	if err != nil {
		fmt.Println("C23-CYCLE-ERROR", err)
		return
	}
	bt := cycleBackendTree(spec)
	_, _, rawPkt, err := s.exchange(bt, rand.New(rand.NewSource(spec.Seed)))
	if rawPkt == nil {
		fmt.Println("C23-CYCLE-ERROR", err)
		return
	}
	fmt.Println("C23-CYCLE-RECEIVED " + hex.EncodeToString(rawPkt))
}

func runCycleClass(r *lib.Run, cn *counters) {
	kinds := []string{"to-root", "to-own-command", "to-root-under-requirement"}
	protos := []int{404, 763, 767, 775}
	rng := r.Rng("cycles")
	n := r.N(3, 12)
	for i := 0; i < n; i++ {
		spec := cycleSpec{Kind: kinds[i%len(kinds)], Proto: protos[rng.Intn(len(protos))], Seed: r.Seed}
		if rng.Intn(2) == 0 {
			spec.Perms = []string{"perm.1"}
		}
		sj, _ := json.Marshal(spec)
		px := cycleTree(spec.Kind)
		bt := cycleBackendTree(spec)
		desc := map[string]any{"class": "proxy-redirect-cycle", "spec": spec, "proxy_tree": dump(px.Root), "backend_tree": dump(bt.Root)}
		r.LogCase(desc)
		cmd := exec.Command(os.Args[0], "-test.run", "^TestC23CycleChild$", "-test.timeout", "0")
		cmd.Env = append(os.Environ(), "VERIF_C23_CYCLE="+string(sj), "GOTRACEBACK=single")
		var out bytes.Buffer
		cmd.Stdout, cmd.Stderr = &out, &out
		done := make(chan error, 1)
		if err := cmd.Start(); err != nil {
			r.Inconclusive("cannot start the cycle child: " + err.Error())
			return
		}
		go func() { done <- cmd.Wait() }()
		var werr error
		select {
		case werr = <-done:
		case <-time.After(120 * time.Second):
			_ = cmd.Process.Kill()
			<-done
			r.Inconclusive(fmt.Sprintf("cycle case %s: child did not finish within the watchdog", spec.Kind))
			continue
		}
		txt := out.String()
		cn.add("cycle_cases_run", 1)
		cn.add("cycle_cases:"+spec.Kind, 1)
		m := cycleRecvRe.FindStringSubmatch(txt)
		switch {
		case m != nil:
			rawPkt, _ := hex.DecodeString(m[1])
			got, err := decodeTree(spec.Proto, stripID(rawPkt))
			if err != nil {
				r.Inconclusive(fmt.Sprintf("cycle case %s: monitor cannot decode the received tree: %v", spec.Kind, err))
				continue
			}
			perms := map[string]bool{}
			for _, p := range spec.Perms {
				perms[p] = true
			}
			j := &judge{pv: spec.Proto, px: px, bt: bt, perms: perms, rt: got, matched: map[int]bool{}, stats: map[string]int{}}
			j.run()
			r.Eval(1)
			r.Distinct("cycle|" + string(sj))
			desc["received_tree"] = got.dump()
			for _, v := range j.out {
				r.Violation("proxy-redirect-cycle:"+spec.Kind+":"+v.sig, v.what, desc)
			}
			if len(j.out) == 0 {
				cn.add("cycle_cases_delivered_and_judged", 1)
				cn.merge(j.stats)
				if i < 2 {
					desc["judgement"] = j.stats
					r.Sample(desc)
				}
			}
		case strings.Contains(txt, "stack overflow") || strings.Contains(txt, "goroutine stack exceeds"):
			r.Eval(1)
			r.Distinct("cycle|" + string(sj))
			desc["child_output_head"] = head(txt, 60)
			desc["child_exit"] = fmt.Sprint(werr)
			frame := "?"
			if strings.Contains(txt, "proxy.filterNode") {
				frame = "filterNode"
			} else if fm := regexp.MustCompile(`go\.minekube\.com/gate/[^\s(]+\.(\w+)\(`).FindStringSubmatch(txt); fm != nil {
				frame = fm[1]
			}
			r.Violation("proxy-redirect-cycle:"+spec.Kind+":process-died:stack-overflow@"+frame,
				"the proxy process died of a stack overflow while merging its command tree (a node redirects "+map[string]string{"to-own-command": "to the command it lives under"}[spec.Kind]+map[string]string{"to-root": "to the dispatcher root", "to-root-under-requirement": "to the dispatcher root"}[spec.Kind]+") into the backend's tree; no tree reached the player", desc)
		default:
			r.Inconclusive(fmt.Sprintf("cycle case %s: child ended (%v) without delivering a tree: %s", spec.Kind, werr, head(txt, 6)))
		}
	}
}

func head(s string, lines int) string {
	ls := strings.Split(s, "\n")
	if len(ls) > lines {
		ls = ls[:lines]
	}
	return strings.Join(ls, "\n")
}

func cycleBackendTree(spec cycleSpec) *backendTree {
	t := &backendTree{Root: &gnode{Kind: kindRoot}, Collisions: map[string]string{}, prefix: "bc" + strconv.Itoa(spec.Proto)}
	mk := func(name string, exec bool, kids ...*gnode) *gnode {
		n := &gnode{ID: t.n, Name: name, Kind: kindLit, Exec: exec, Children: kids}
		t.n++
		return n
	}
	// the backend has its own "execute run" loop and a command named like the proxy's cyclic one
	run := mk(t.prefix+"_run", false)
	run.Redirect = t.Root
	t.Root.Children = []*gnode{mk(t.prefix+"_marker", true), mk(t.prefix+"_execute", false, run), mk("pcexec", true, mk(t.prefix+"_x", true))}
	t.Collisions["pcexec"] = "exact"
	return t
}
