// C23: the command tree sent to a player only shows proxy commands it may use.
//
// Workload (end to end, live in-process proxy): proxy command trees of depth <= 4 (literals,
// string/integer/bool arguments, per-node requirements on inner nodes and leaves, redirects to
// allowed and disallowed nodes of other commands) are registered through the public API
// p.Command().Register(brigodier builders). Fake clients of protocols 393..775 log in; a
// PermissionsSetupEvent subscriber gives each player a permission function that reads a
// per-player set the generator controls. The fake backend then sends generated "Commands"
// packets (hand-encoded, nodes in shuffled order: literals, arguments of 11 parser kinds with
// properties, suggestion providers, executable/restricted flags, alias redirects, redirects to
// the root, shared children) whose root commands collide with proxy root commands (exact
// name, case variants, nested nodes of the same name). The fake client decodes what it
// receives with the hand-written decoder of wire_test.go.
//
// Oracle (independent tree walker; shares no code with Gate or brigodier): proxy nodes carry
// unique generated names, backend nodes too, so origin is decidable on the wire.
//
//	E1 every node of the received packet (reachable from the root or only through a
//	   redirect) that originates from the proxy tree is one whose own requirement the player
//	   passes (requirement table known to the generator);
//	E2 a backend root command with exactly the name of a proxy root command the player is
//	   shown is gone: the root child of that name is the proxy's node and carries nothing of
//	   the backend's subtree;
//	E3 every other backend root command is still a root child and bisimilar to what was sent:
//	   name, kind, executable flag, (restricted flag from 771), parser and properties in an
//	   encoding-independent normal form, suggestions identifier, children (as a set, by
//	   name, recursively), redirect target (recursively; root <-> root); and the packet
//	   contains no node of unknown origin.
//
// Readings taken where the statement leaves latitude (each is the one under which correct
// code passes):
//   - "the player passes the requirement for": the node's own requirement. A node that is the
//     target of a redirect is shown when its own requirement passes even if the command it
//     lives under is hidden (the statement quantifies over nodes, not paths).
//   - "proxy nodes replace backend nodes of the same name": the same name means the identical
//     string (a backend "PCMD" next to the proxy's "pcmd" stays), it is about root commands
//     (that is where the trees are merged), and only a proxy node the player receives replaces
//     anything: a backend command whose name equals a proxy command hidden from this player is
//     one of "all other backend nodes" and must be kept unchanged (the player's input goes to
//     the backend in that case).
//   - a backend node that redirects to a replaced backend command may keep pointing to the
//     backend's node or point to the proxy's node of that name; both are accepted.
//   - "kept unchanged": as a client understands the tree, not byte-identical: node indices and
//     child order may change, an absent numeric bound equals the type's extreme value, flag
//     bit 0x20 is ignored below protocol 771 where it is undefined.
//   - the statement does not promise that every permitted proxy node is shown; missing ones
//     are counted in the evidence (visible_proxy_nodes_missing) but only a missing *replacing*
//     root command is a violation (E2).
//   - proxy trees whose redirects form a cycle (to the root or an ancestor) are a separate
//     class run in a child process (cycle_test.go), because the failure mode there is a fatal
//     stack overflow.
//
// Protocol 340 and older have no command tree packet; nothing is checked there.
package c23

import (
	"crypto/sha1"
	"encoding/hex"
	"fmt"
	"math/rand"
	"sort"
	"strings"
	"sync"
	"testing"
	"time"

	"github.com/robinbraemer/event"
	"go.minekube.com/brigodier"

	"go.minekube.com/gate/pkg/command"
	"go.minekube.com/gate/pkg/edition/java/proto/packet"
	"go.minekube.com/gate/pkg/edition/java/proto/state"
	"go.minekube.com/gate/pkg/edition/java/proto/state/states"
	"go.minekube.com/gate/pkg/edition/java/proxy"
	"go.minekube.com/gate/pkg/edition/java/proxy/verifh/e2e"
	"go.minekube.com/gate/pkg/edition/java/proxy/verifh/lib"
	"go.minekube.com/gate/pkg/gate/proto"
	"go.minekube.com/gate/pkg/util/permission"
)

var protocols = []int{393, 404, 477, 573, 735, 754, 758, 759, 760, 761, 763, 764, 765, 767, 770, 771, 774, 775}

const nPerms = 6

// ---- permission table -----------------------------------------------------------------------

type permTable struct {
	mu sync.Mutex
	m  map[string]map[string]bool // player -> permission -> granted
}

func (p *permTable) set(player string, perms map[string]bool) {
	p.mu.Lock()
	p.m[player] = perms
	p.mu.Unlock()
}

func (p *permTable) has(player, perm string) bool {
	p.mu.Lock()
	defer p.mu.Unlock()
	return p.m[player][perm]
}

// passes is the reference evaluation of a requirement.
func passes(req string, perms map[string]bool) bool {
	switch req {
	case "", "always":
		return true
	case "never":
		return false
	}
	return perms[req]
}

// ---- proxy tree generator ---------------------------------------------------------------------

type proxyTree struct {
	Root   *gnode
	ByName map[string]*gnode
	n      int
	prefix string
}

func genReq(rng *rand.Rand) string {
	switch k := rng.Intn(20); {
	case k < 9:
		return ""
	case k < 10:
		return "never"
	case k < 11:
		return "always"
	default:
		return fmt.Sprintf("perm.%d", rng.Intn(nPerms))
	}
}

func (t *proxyTree) newNode(rng *rand.Rand, kind, depth int) *gnode {
	n := &gnode{ID: t.n, Kind: kind, Proxy: true, Depth: depth, Req: genReq(rng), Exec: rng.Intn(3) != 0}
	n.Name = fmt.Sprintf("%sn%d", t.prefix, t.n)
	t.n++
	if kind == kindArg {
		switch rng.Intn(4) {
		case 0:
			n.Parser = "brigadier:bool"
		case 1:
			n.Parser = "brigadier:integer"
			if rng.Intn(2) == 0 {
				n.Props.HasMin, n.Props.Min = true, float64(rng.Intn(10))
			}
			if rng.Intn(2) == 0 {
				n.Props.HasMax, n.Props.Max = true, float64(10+rng.Intn(1000))
			}
		default:
			n.Parser = "brigadier:string"
			n.Props.Mode = rng.Intn(3)
		}
		if rng.Intn(4) == 0 {
			n.Suggest = "minecraft:ask_server"
		}
	}
	t.ByName[n.Name] = n
	return n
}

func (t *proxyTree) grow(rng *rand.Rand, n *gnode) {
	if n.Depth >= 4 {
		n.Exec = true
		return
	}
	if n.Kind == kindArg && n.Parser == "brigadier:string" && n.Props.Mode == 2 {
		n.Exec = true // greedy: nothing can follow
		return
	}
	k := rng.Intn(4)
	if n.Depth == 1 && k == 0 && rng.Intn(2) == 0 {
		k = 2
	}
	if n.Depth >= 3 {
		k = rng.Intn(2)
	}
	for i := 0; i < k; i++ {
		kind := kindLit
		if rng.Intn(3) == 0 {
			kind = kindArg
		}
		c := t.newNode(rng, kind, n.Depth+1)
		n.Children = append(n.Children, c)
		t.grow(rng, c)
	}
	if len(n.Children) == 0 {
		n.Exec = true
	}
}

func all(g *gnode) []*gnode { return flatten(g) }

// genProxyTree builds 3..6 root commands; leaves of later commands may redirect to nodes of
// earlier commands (acyclic by construction), whatever those nodes require.
func genProxyTree(rng *rand.Rand, prefix string) *proxyTree {
	t := &proxyTree{Root: &gnode{Kind: kindRoot, Proxy: true}, ByName: map[string]*gnode{}, prefix: prefix}
	m := 3 + rng.Intn(4)
	for i := 0; i < m; i++ {
		c := t.newNode(rng, kindLit, 1)
		t.grow(rng, c)
		if i > 0 {
			var earlier []*gnode
			for _, r := range t.Root.Children {
				for _, x := range all(r) {
					if x.Redirect == nil {
						earlier = append(earlier, x)
					}
				}
			}
			for _, leaf := range all(c) {
				if len(leaf.Children) == 0 && rng.Intn(3) == 0 {
					if rng.Intn(2) == 0 {
						leaf.Redirect = t.Root.Children[rng.Intn(len(t.Root.Children))] // a root command
					} else {
						leaf.Redirect = earlier[rng.Intn(len(earlier))]
					}
				}
			}
		}
		t.Root.Children = append(t.Root.Children, c)
	}
	return t
}

type noSuggestions struct{}

func (noSuggestions) Suggestions(_ *brigodier.CommandContext, b *brigodier.SuggestionsBuilder) *brigodier.Suggestions {
	return b.Build()
}

// requirement turns a generated requirement into a brigodier.RequireFn (nil = none). The
// permission ones ask the command source, i.e. the player's permission function installed at
// PermissionsSetupEvent, which reads the generator's table.
func requirement(req string) brigodier.RequireFn {
	switch req {
	case "":
		return nil
	case "never":
		return command.Requires(func(*command.RequiresContext) bool { return false })
	case "always":
		return command.Requires(func(*command.RequiresContext) bool { return true })
	}
	return command.Requires(func(c *command.RequiresContext) bool { return c.Source != nil && c.Source.HasPermission(req) })
}

func argType(n *gnode) brigodier.ArgumentType {
	switch n.Parser {
	case "brigadier:bool":
		return brigodier.Bool
	case "brigadier:integer":
		it := &brigodier.Int32ArgumentType{Min: brigodier.MinInt32, Max: brigodier.MaxInt32}
		if n.Props.HasMin {
			it.Min = int32(n.Props.Min)
		}
		if n.Props.HasMax {
			it.Max = int32(n.Props.Max)
		}
		return it
	}
	return []brigodier.ArgumentType{brigodier.StringWord, brigodier.String, brigodier.StringPhrase}[n.Props.Mode]
}

// register builds the brigodier nodes bottom-up (so redirect targets are the registered node
// objects themselves) and registers every root command through the public API
// p.Command().Register(LiteralNodeBuilder). It returns the registered node of every generated one.
func (t *proxyTree) register(mgr *command.Manager) map[*gnode]brigodier.CommandNode {
	built := map[*gnode]brigodier.CommandNode{}
	target := func(n *gnode) brigodier.CommandNode {
		if n.Kind == kindRoot {
			return &mgr.Root
		}
		b, ok := built[n]
		if !ok {
			panic("generator: redirect to a node that is not built yet: " + n.Name)
		}
		return b
	}
	cmd := brigodier.Command(command.Command(func(*command.Context) error { return nil }))
	var mk func(n *gnode) brigodier.CommandNode
	mk = func(n *gnode) brigodier.CommandNode {
		var nb brigodier.NodeBuilder
		if n.Kind == kindLit {
			nb = brigodier.Literal(n.Name).NodeBuilder()
		} else {
			ab := brigodier.Argument(n.Name, argType(n))
			if n.Suggest != "" {
				ab.Suggests(noSuggestions{})
			}
			nb = ab.NodeBuilder()
		}
		if rq := requirement(n.Req); rq != nil {
			nb.Requires(rq)
		}
		if n.Exec {
			nb.Executes(cmd)
		}
		for _, c := range n.Children {
			nb.Then(mk(c).(brigodier.Builder))
		}
		if n.Redirect != nil {
			nb.Redirect(target(n.Redirect))
		}
		b := nb.Build()
		built[n] = b
		return b
	}
	for _, c := range t.Root.Children {
		lb := brigodier.Literal(c.Name)
		if rq := requirement(c.Req); rq != nil {
			lb.Requires(rq)
		}
		if c.Exec {
			lb.Executes(cmd)
		}
		for _, k := range c.Children {
			lb.Then(mk(k).(brigodier.Builder))
		}
		if c.Redirect != nil {
			lb.Redirect(target(c.Redirect))
		}
		built[c] = mgr.Register(lb)
	}
	return built
}

// ---- backend tree generator ---------------------------------------------------------------------

var suggestIDs = []string{"minecraft:ask_server", "minecraft:all_recipes", "minecraft:available_sounds", "minecraft:summonable_entities"}

type backendTree struct {
	Root       *gnode
	Collisions map[string]string // backend root command name -> kind of collision
	n          int
	prefix     string
}

func (t *backendTree) newNode(rng *rand.Rand, kind int, name string) *gnode {
	n := &gnode{ID: t.n, Kind: kind, Name: name, Exec: rng.Intn(2) == 0, Restricted: rng.Intn(5) == 0}
	if name == "" {
		n.Name = fmt.Sprintf("%s_%d", t.prefix, t.n)
	}
	t.n++
	if kind == kindArg {
		ps := []string{"brigadier:bool", "brigadier:float", "brigadier:double", "brigadier:integer", "brigadier:long", "brigadier:string", "minecraft:entity", "minecraft:game_profile", "minecraft:block_pos", "minecraft:vec3", "minecraft:item_stack"}
		n.Parser = ps[rng.Intn(len(ps))]
		switch n.Parser {
		case "brigadier:string":
			n.Props.Mode = rng.Intn(3)
		case "minecraft:entity":
			n.Props.Mode = rng.Intn(4)
		case "brigadier:integer", "brigadier:long", "brigadier:float", "brigadier:double":
			if rng.Intn(2) == 0 {
				n.Props.HasMin, n.Props.Min = true, float64(rng.Intn(200)-100)
			}
			if rng.Intn(2) == 0 {
				n.Props.HasMax, n.Props.Max = true, float64(100+rng.Intn(100000))
			}
			if rng.Intn(12) == 0 {
				// explicit bound equal to the type's extreme: same meaning as no bound
				n.Props.HasMin = true
				switch n.Parser {
				case "brigadier:integer":
					n.Props.Min = -2147483648
				case "brigadier:long":
					n.Props.Min = -9223372036854775808
				case "brigadier:float":
					n.Props.Min = -3.4028234663852886e+38
				default:
					n.Props.Min = -1.7976931348623157e+308
				}
			}
			if n.Parser == "brigadier:float" {
				n.Props.Min, n.Props.Max = float64(float32(n.Props.Min)), float64(float32(n.Props.Max))
			}
		}
		if rng.Intn(3) == 0 {
			n.Suggest = suggestIDs[rng.Intn(len(suggestIDs))]
		}
	}
	return n
}

func (t *backendTree) grow(rng *rand.Rand, n *gnode, depth int, nestedNames []string) {
	if depth >= 4 || (n.Kind == kindArg && n.Parser == "brigadier:string" && n.Props.Mode == 2) {
		return
	}
	k := rng.Intn(4)
	if depth >= 3 {
		k = rng.Intn(2)
	}
	for i := 0; i < k; i++ {
		kind := kindLit
		if rng.Intn(3) == 0 {
			kind = kindArg
		}
		name := ""
		if len(nestedNames) > 0 && rng.Intn(12) == 0 && n.child(nestedNames[0]) == nil {
			name = nestedNames[rng.Intn(len(nestedNames))] // a nested backend node named like a proxy command
			if n.child(name) != nil {
				name = ""
			}
		}
		c := t.newNode(rng, kind, name)
		n.Children = append(n.Children, c)
		t.grow(rng, c, depth+1, nestedNames)
	}
}

func flipCase(rng *rand.Rand, s string) string {
	b := []byte(s)
	if rng.Intn(2) == 0 {
		return strings.ToUpper(s)
	}
	b[0] = strings.ToUpper(s[:1])[0]
	return string(b)
}

// genBackendTree builds 2..7 backend root commands; some take the exact name of a proxy root
// command, some a case variant of one.
func genBackendTree(rng *rand.Rand, prefix string, px *proxyTree) *backendTree {
	t := &backendTree{Root: &gnode{Kind: kindRoot}, Collisions: map[string]string{}, prefix: prefix}
	var pnames []string
	for _, c := range px.Root.Children {
		pnames = append(pnames, c.Name)
	}
	var nested []string
	if rng.Intn(3) == 0 {
		nested = pnames
	}
	m := 2 + rng.Intn(6)
	for i := 0; i < m; i++ {
		name := ""
		switch rng.Intn(6) {
		case 0, 1:
			name = pnames[rng.Intn(len(pnames))]
			if t.Root.child(name) != nil {
				name = ""
			} else {
				t.Collisions[name] = "exact"
			}
		case 2:
			name = flipCase(rng, pnames[rng.Intn(len(pnames))])
			if t.Root.child(name) != nil {
				name = ""
			} else {
				t.Collisions[name] = "case-variant"
			}
		}
		c := t.newNode(rng, kindLit, name)
		t.grow(rng, c, 1, nested)
		t.Root.Children = append(t.Root.Children, c)
	}
	// the first command is the marker that ties the reply to this request
	t.Root.Children[0].Exec = true
	// aliases, an "execute run"-style redirect to the root, "execute as"-style redirects to the
	// own command, shared children. A client can only build a tree whose redirect edges form no
	// cycle among redirecting nodes (vanilla: "Server sent an impossible command tree"), so a
	// node that is a redirect target never redirects itself.
	nodes := flatten(t.Root)
	pinned := map[*gnode]bool{}
	owner := map[*gnode]*gnode{}
	for _, c := range t.Root.Children {
		for _, x := range flatten(c) {
			if owner[x] == nil {
				owner[x] = c
			}
		}
	}
	for _, n := range nodes {
		if n.Kind == kindRoot || len(n.Children) != 0 || pinned[n] {
			continue
		}
		var tgt *gnode
		switch rng.Intn(14) {
		case 0:
			tgt = t.Root
		case 1, 2:
			tgt = t.Root.Children[rng.Intn(len(t.Root.Children))]
		case 3:
			tgt = nodes[rng.Intn(len(nodes))]
		case 4:
			tgt = owner[n] // the command this node lives under
		}
		if tgt == nil || tgt == n || tgt.Redirect != nil {
			continue
		}
		n.Redirect = tgt
		pinned[tgt] = true
	}
	if rng.Intn(4) == 0 && len(t.Root.Children) >= 2 {
		// one subtree shared by two commands (legal on the wire; vanilla does it)
		a, b := t.Root.Children[0], t.Root.Children[1]
		if len(a.Children) > 0 && b.Redirect == nil {
			sh := a.Children[0]
			if b.child(sh.Name) == nil && !reaches(sh, b) {
				b.Children = append(b.Children, sh)
			}
		}
	}
	return t
}

// genExecuteAsTree is the smallest form of vanilla's "execute as <targets> -> execute": a
// command whose only leaf redirects back to the command it lives under, so every node order on
// the wire has the redirecting leaf either before or after its target and no other leaf exists.
func genExecuteAsTree(rng *rand.Rand, prefix string, px *proxyTree) *backendTree {
	t := &backendTree{Root: &gnode{Kind: kindRoot}, Collisions: map[string]string{}, prefix: prefix}
	cmd := t.newNode(rng, kindLit, "")
	cmd.Exec = true
	cur := cmd
	for i, n := 0, rng.Intn(3); i < n; i++ {
		k := kindLit
		if rng.Intn(2) == 0 {
			k = kindArg
		}
		c := t.newNode(rng, k, "")
		if c.Kind == kindArg && c.Parser == "brigadier:string" {
			c.Props.Mode = rng.Intn(2)
		}
		cur.Children = []*gnode{c}
		cur = c
	}
	leaf := t.newNode(rng, kindLit, "")
	leaf.Redirect = cmd
	cur.Children = append(cur.Children, leaf)
	t.Root.Children = []*gnode{cmd}
	if rng.Intn(2) == 0 {
		// and a second command that is nothing but an alias of the first
		al := t.newNode(rng, kindLit, "")
		al.Redirect = cmd
		t.Root.Children = append(t.Root.Children, al)
	}
	_ = px
	return t
}

func reaches(from, to *gnode) bool {
	for _, x := range flatten(from) {
		if x == to {
			return true
		}
	}
	return false
}

// ---- oracle --------------------------------------------------------------------------------------

type verdict struct {
	sig, what string
}

type judge struct {
	pv      int
	px      *proxyTree
	bt      *backendTree
	perms   map[string]bool
	rt      *wtree
	matched map[int]bool // received nodes accounted for as (unchanged) backend nodes
	out     []verdict
	stats   map[string]int
}

func (j *judge) add(sig, f string, a ...any) {
	j.out = append(j.out, verdict{sig, fmt.Sprintf(f, a...)})
}

// bisim compares a sent backend node with a received node. viaRedirect targets that are the
// root compare as "is the root". Returns "" or (field, description) of the first difference.
func (j *judge) bisim(s *gnode, ri int, memo map[[2]int]bool, visible map[string]bool, viaRedirect bool) (string, string) {
	w := j.rt.Nodes[ri]
	if s.Kind == kindRoot || w.Kind == kindRoot {
		if s.Kind == w.Kind && ri == j.rt.Root {
			return "", ""
		}
		return "redirect", fmt.Sprintf("sent %s, received #%d %s", label(s), ri, w.label())
	}
	key := [2]int{s.ID, ri}
	if memo[key] {
		return "", ""
	}
	memo[key] = true
	path := label(s)
	switch {
	case s.Kind != w.Kind:
		return "kind", fmt.Sprintf("%s: kind %d became %d", path, s.Kind, w.Kind)
	case s.Name != w.Name:
		return "name", fmt.Sprintf("%s became %q", path, w.Name)
	case s.Exec != w.Exec:
		return "executable-flag", fmt.Sprintf("%s: executable %v became %v", path, s.Exec, w.Exec)
	case j.pv >= 771 && s.Restricted != w.Restricted:
		return "restricted-flag", fmt.Sprintf("%s: restricted %v became %v", path, s.Restricted, w.Restricted)
	case s.Kind == kindArg && s.Parser != w.Parser:
		return "parser", fmt.Sprintf("%s: parser became %s", path, w.Parser)
	case s.Kind == kindArg && s.Props.normal(s.Parser) != w.PropsNorm:
		return "properties", fmt.Sprintf("%s: properties became %s", path, w.PropsNorm)
	case s.Suggest != w.Suggest:
		return "suggestions", fmt.Sprintf("%s: suggestions %q became %q", path, s.Suggest, w.Suggest)
	case len(s.Children) != len(w.Children):
		return "children", fmt.Sprintf("%s: %d children became %d", path, len(s.Children), len(w.Children))
	case (s.Redirect == nil) != (w.Redirect < 0):
		return "redirect", fmt.Sprintf("%s: redirect present %v became %v", path, s.Redirect != nil, w.Redirect >= 0)
	}
	byName := map[string]int{}
	for _, c := range w.Children {
		byName[j.rt.Nodes[c].Name] = c
	}
	for _, sc := range s.Children {
		rc, ok := byName[sc.Name]
		if !ok {
			return "children", fmt.Sprintf("%s: child %q is gone", path, sc.Name)
		}
		if f, d := j.bisim(sc, rc, memo, visible, false); f != "" {
			return f, d
		}
	}
	if s.Redirect != nil {
		tgt := s.Redirect
		// latitude: a redirect to a replaced backend command may point to either version
		if tgt.Kind != kindRoot && j.bt.Root.child(tgt.Name) == tgt && visible[tgt.Name] {
			j.stats["backend_redirects_to_replaced_command"]++
			if j.rt.Nodes[w.Redirect].Name != tgt.Name {
				return "redirect", fmt.Sprintf("%s: redirect target became %s", path, j.rt.Nodes[w.Redirect].label())
			}
			isRootChild := false
			for _, c := range j.rt.Nodes[j.rt.Root].Children {
				if c == w.Redirect {
					isRootChild = true
				}
			}
			if !isRootChild {
				// not the proxy's node of that name: then it has to be the backend's, unchanged
				if f, d := j.bisim(tgt, w.Redirect, memo, visible, true); f != "" {
					return f, fmt.Sprintf("%s -> : %s", path, d)
				}
				j.stats["backend_redirects_to_replaced_command_kept_backend_target"]++
			}
		} else {
			j.stats["backend_redirects_compared"]++
			if f, d := j.bisim(tgt, w.Redirect, memo, visible, true); f != "" {
				return f, fmt.Sprintf("%s -> : %s", path, d)
			}
		}
	}
	j.matched[ri] = true
	j.stats["backend_nodes_compared"]++
	return "", ""
}

func label(g *gnode) string {
	switch g.Kind {
	case kindRoot:
		return "<root>"
	case kindLit:
		return g.Name
	}
	return fmt.Sprintf("<%s:%s %s>", g.Name, g.Parser, g.Props.normal(g.Parser))
}

// run judges one received tree.
func (j *judge) run() {
	rt := j.rt
	root := rt.Nodes[rt.Root]
	rootKids := map[string][]int{}
	for _, c := range root.Children {
		rootKids[rt.Nodes[c].Name] = append(rootKids[rt.Nodes[c].Name], c)
	}
	// which proxy root commands may this player see?
	visible := map[string]bool{}
	for _, pc := range j.px.Root.Children {
		if passes(pc.Req, j.perms) {
			visible[pc.Name] = true
			j.stats["proxy_root_commands_visible"]++
		} else {
			j.stats["proxy_root_commands_hidden"]++
		}
	}
	// E2 + E3 over the backend's root commands
	memo := map[[2]int]bool{}
	for _, bc := range j.bt.Root.Children {
		kind := j.bt.Collisions[bc.Name]
		got := rootKids[bc.Name]
		if kind == "exact" && visible[bc.Name] {
			j.stats["collisions_exact_with_visible_proxy_command"]++
			// E2: replaced
			switch {
			case len(got) == 0:
				j.add("replace:neither-proxy-nor-backend-command-present", "root has no child %q although the proxy command of that name is visible to the player", bc.Name)
			case len(got) > 1:
				j.add("replace:same-name-backend-node-survives:alongside", "root has %d children named %q", len(got), bc.Name)
			default:
				sub := map[string]bool{}
				for _, x := range flatten(bc) {
					if x != bc && x.Kind != kindRoot && j.px.ByName[x.Name] == nil {
						sub[x.Name] = true
					}
				}
				mixed := ""
				for _, ri := range j.reach(got[0]) {
					if ri != got[0] && sub[rt.Nodes[ri].Name] {
						mixed = rt.Nodes[ri].Name
					}
				}
				w := rt.Nodes[got[0]]
				pc := j.px.Root.child(bc.Name)
				var proxyKid, backendKid int
				for _, c := range w.Children {
					if pc.child(rt.Nodes[c].Name) != nil {
						proxyKid++
					}
					if bc.child(rt.Nodes[c].Name) != nil {
						backendKid++
					}
				}
				switch {
				case mixed != "" && proxyKid > 0:
					j.add("replace:same-name-backend-node-survives:merged-into-proxy-node", "root child %q carries the backend's node %q next to the proxy's children", bc.Name, mixed)
				case mixed != "" || (backendKid > 0 && proxyKid == 0):
					j.add("replace:same-name-backend-node-survives:instead-of-proxy-node", "root child %q is the backend's node (has the backend's %q), the proxy command of that name is visible to the player", bc.Name, mixed)
				default:
					j.stats["backend_commands_replaced_by_proxy_command"]++
				}
			}
			continue
		}
		switch kind {
		case "exact":
			j.stats["collisions_exact_with_hidden_proxy_command"]++
		case "case-variant":
			j.stats["collisions_case_variant"]++
		}
		if len(got) != 1 {
			sig := "backend-node-changed:root-command-missing"
			if len(got) > 1 {
				sig = "backend-node-changed:root-command-duplicated"
			}
			if kind != "" {
				sig += ":" + kind + "-collision"
			}
			j.add(sig, "backend root command %q arrives %d times", bc.Name, len(got))
			continue
		}
		if f, d := j.bisim(bc, got[0], memo, visible, false); f != "" {
			sig := "backend-node-changed:" + f
			if kind == "exact" {
				sig += ":name-of-hidden-proxy-command"
			}
			j.add(sig, "%s", d)
			continue
		}
		j.stats["backend_root_commands_kept_unchanged"]++
	}
	// E1 + origin of everything else
	inTree := map[int]int{} // received index -> depth through children
	var walk func(i, d int)
	walk = func(i, d int) {
		if _, ok := inTree[i]; ok {
			return
		}
		inTree[i] = d
		for _, c := range rt.Nodes[i].Children {
			walk(c, d+1)
		}
	}
	walk(rt.Root, 0)
	shown := map[string]bool{}
	backendNames := map[string]bool{}
	for _, x := range flatten(j.bt.Root) {
		backendNames[x.Name] = true
	}
	for i, w := range rt.Nodes {
		if i == rt.Root || j.matched[i] {
			continue
		}
		if w.Kind == kindRoot {
			// a proxy node that redirects to the proxy's root may arrive as a redirect to a root
			// node holding the proxy's commands only (its children are judged by E1 like any node)
			ok := true
			for _, c := range w.Children {
				if pc := j.px.Root.child(rt.Nodes[c].Name); pc == nil {
					ok = false
				}
			}
			if !ok {
				j.add("unexpected-node:second-root", "node #%d is another root node with children that are not proxy commands", i)
			} else {
				j.stats["proxy_root_copies_behind_redirect"]++
			}
			continue
		}
		pn := j.px.ByName[w.Name]
		if pn != nil && len(j.out) > 0 && backendNames[w.Name] {
			continue // part of a backend command already reported under E2/E3; origin not decidable
		}
		if pn == nil || pn.Kind != w.Kind {
			// nodes of a backend command that failed E2/E3 are already reported
			if len(j.out) == 0 {
				j.add("unexpected-node:unknown-origin", "node #%d %s was neither sent by the backend (unchanged) nor registered on the proxy", i, w.label())
			}
			continue
		}
		where := "behind-redirect"
		if d, ok := inTree[i]; ok {
			where = "nested-node"
			if d == 1 {
				where = "root-command"
			}
		}
		if !passes(pn.Req, j.perms) {
			j.add("proxy-node-shown-but-requirement-fails:"+where, "the player receives proxy node %s (%s) whose requirement %q it fails", w.label(), where, pn.Req)
			continue
		}
		j.stats["proxy_nodes_shown_requirement_passes"]++
		j.stats["proxy_nodes_shown:"+where]++
		if pn.Req != "" {
			j.stats["proxy_nodes_shown_with_a_requirement"]++
		}
		if where != "behind-redirect" {
			shown[w.Name] = true
		}
		if w.Redirect >= 0 {
			j.stats["proxy_redirects_shown"]++
		}
		if pn.Redirect != nil && w.Redirect < 0 {
			j.stats["proxy_redirects_dropped"]++
		}
	}
	// what the generator expects to be hidden / visible (diagnostics, and the E1 denominators)
	var expect func(n *gnode, anc bool)
	expect = func(n *gnode, anc bool) {
		ok := anc
		if n.Kind != kindRoot {
			own := passes(n.Req, j.perms)
			if !own {
				j.stats["proxy_nodes_failing_own_requirement_confirmed_absent"]++ // E1 found none of them
			} else if !anc {
				j.stats["proxy_nodes_under_hidden_ancestor"]++
			}
			ok = anc && own
			if ok {
				j.stats["visible_proxy_nodes_expected"]++
				if !shown[n.Name] {
					j.stats["visible_proxy_nodes_missing"]++
				}
			}
			if n.Redirect != nil {
				if passes(n.Redirect.Req, j.perms) {
					j.stats["proxy_redirects_to_allowed_target"]++
				} else {
					j.stats["proxy_redirects_to_disallowed_target"]++
				}
			}
		}
		for _, c := range n.Children {
			expect(c, ok)
		}
	}
	if len(j.out) == 0 {
		j.stats["visible_proxy_nodes_missing"] += 0
		expect(j.px.Root, true)
	}
}

func (j *judge) reach(i int) []int {
	var out []int
	seen := map[int]bool{}
	var rec func(i int)
	rec = func(i int) {
		if seen[i] {
			return
		}
		seen[i] = true
		out = append(out, i)
		for _, c := range j.rt.Nodes[i].Children {
			rec(c)
		}
	}
	rec(i)
	return out
}

// ---- e2e plumbing -------------------------------------------------------------------------------------

func commandsPacketID(pv int) (int, bool) {
	reg := state.FromDirection(proto.ClientBound, state.Play, proto.Protocol(pv))
	if reg == nil {
		return 0, false
	}
	id, ok := reg.PacketID(&packet.AvailableCommands{})
	return int(id), ok
}

func stripID(payload []byte) []byte {
	r := &rd{b: payload}
	r.varint()
	return payload[r.off:]
}

type session struct {
	name string
	pv   int
	c    *e2e.Client
	bc   *e2e.BackendConn
	id   int
	// reported: the proxy's API named the backend as the player's current server in time
	reported bool
}

type world struct {
	h     *e2e.Harness
	b     *e2e.Backend
	perms *permTable
	px    *proxyTree
}

func newWorld(px *proxyTree) (*world, error) {
	return newWorldWith(px, func(w *world) { px.register(w.h.P.Command()) })
}

func newWorldWith(px *proxyTree, register func(*world)) (*world, error) {
	h, err := e2e.New(e2e.Options{})
	if err != nil {
		return nil, err
	}
	w := &world{h: h, perms: &permTable{m: map[string]map[string]bool{}}, px: px}
	if w.b, err = h.AddBackend("lobby", e2e.Always(e2e.Behavior{Mode: e2e.Accept, Threshold: -1})); err != nil {
		return nil, err
	}
	h.Cfg.Try = []string{"lobby"}
	event.Subscribe(h.Ev, 0, func(e *proxy.PermissionsSetupEvent) {
		pl, ok := e.Subject().(proxy.Player)
		if !ok {
			return
		}
		name := pl.Username()
		e.SetFunc(func(perm string) permission.TriState {
			if w.perms.has(name, perm) {
				return permission.True
			}
			return permission.False
		})
	})
	register(w)
	return w, nil
}

func (w *world) join(name string, pv int) (*session, error) {
	c := w.h.NewClient(e2e.ClientOpts{Protocol: proto.Protocol(pv)})
	before := len(w.b.Conns())
	if res := c.Login(name, "play.example.com"); !res.Joined {
		c.Close()
		return nil, fmt.Errorf("login of %s (protocol %d) did not complete: %+v %s", name, pv, res, e2e.ReasonText(res.Kicked))
	}
	// JoinGame has reached the client, so the backend connection's play handler is installed
	// (same read loop); the API's view of the current server follows shortly and is not needed
	// by this workload, so it is only waited for briefly
	reported := w.h.AwaitCurrentServer(name, "lobby", 2*time.Second)
	conns := w.b.Conns()
	if len(conns) != before+1 {
		c.Close()
		return nil, fmt.Errorf("expected one new backend connection, have %d", len(conns)-before)
	}
	id, ok := commandsPacketID(pv)
	if !ok {
		c.Close()
		return nil, fmt.Errorf("no commands packet for protocol %d", pv)
	}
	return &session{name: name, pv: pv, c: c, bc: conns[len(conns)-1], id: id, reported: reported}, nil
}

// exchange sends one backend tree and returns what the client received.
func (s *session) exchange(bt *backendTree, rng *rand.Rand) (sent []byte, got *wtree, raw []byte, err error) {
	order := flatten(bt.Root)
	if rng.Intn(3) != 0 {
		rng.Shuffle(len(order), func(a, b int) { order[a], order[b] = order[b], order[a] })
	}
	body, err := encodeTree(s.pv, bt.Root, order)
	if err != nil {
		return nil, nil, nil, err
	}
	sent = append(putVarInt(nil, s.id), body...)
	if err = s.bc.SendRaw(sent); err != nil {
		return sent, nil, nil, fmt.Errorf("backend write: %w", err)
	}
	rec, err := s.c.WaitFor(func(rc *e2e.Rec) bool { return rc.State == states.PlayState && rc.ID == s.id }, e2e.Watchdog)
	if err != nil {
		return sent, nil, nil, err
	}
	raw = rec.Payload
	got, err = decodeTree(s.pv, stripID(raw))
	if err != nil {
		return sent, nil, raw, fmt.Errorf("monitor cannot decode the received tree: %w", err)
	}
	return sent, got, raw, nil
}

func genPerms(rng *rand.Rand) map[string]bool {
	m := map[string]bool{}
	p := []float64{0.1, 0.5, 0.9}[rng.Intn(3)]
	for i := 0; i < nPerms; i++ {
		m[fmt.Sprintf("perm.%d", i)] = rng.Float64() < p
	}
	return m
}

func permList(m map[string]bool) []string {
	var out []string
	for k, v := range m {
		if v {
			out = append(out, k)
		}
	}
	sort.Strings(out)
	return out
}

type counters struct {
	mu sync.Mutex
	m  map[string]int64
}

func (c *counters) merge(m map[string]int) {
	c.mu.Lock()
	for k, v := range m {
		c.m[k] += int64(v)
	}
	c.mu.Unlock()
}

func (c *counters) add(k string, n int) { c.mu.Lock(); c.m[k] += int64(n); c.mu.Unlock() }

// runWorld is one proxy with one registered proxy tree; players x trees exchanges.
func runWorld(r *lib.Run, wi int, players, trees int, cn *counters) {
	rng := r.Rng(fmt.Sprintf("world%d", wi))
	px := genProxyTree(rng, fmt.Sprintf("p%d", wi))
	w, err := newWorld(px)
	if err != nil {
		r.Inconclusive("cannot build a proxy: " + err.Error())
		return
	}
	cn.add("proxy_trees_registered", 1)
	cn.add("proxy_nodes_registered", len(px.ByName))
	for pi := 0; pi < players; pi++ {
		pv := protocols[rng.Intn(len(protocols))]
		name := fmt.Sprintf("W%dP%d", wi, pi)
		perms := genPerms(rng)
		w.perms.set(name, perms)
		s, err := w.join(name, pv)
		if err != nil {
			r.Inconclusive(err.Error())
			continue
		}
		cn.add(fmt.Sprintf("sessions_protocol_%d", pv), 1)
		if !s.reported {
			cn.add("sessions_current_server_not_reported_within_2s", 1)
		}
		for ti := 0; ti < trees; ti++ {
			if ti > 0 && rng.Intn(2) == 0 {
				perms = genPerms(rng) // permissions change between trees of one session
				w.perms.set(name, perms)
			}
			bt := genBackendTree(rng, fmt.Sprintf("b%dx%dx%d", wi, pi, ti), px)
			if ti == 1 {
				bt = genExecuteAsTree(rng, fmt.Sprintf("b%dx%dx%d", wi, pi, ti), px)
				cn.add("backend_trees_execute_as_shape", 1)
			}
			desc := map[string]any{"world": wi, "player": name, "protocol": pv, "tree": ti, "permissions_granted": permList(perms),
				"proxy_tree": dump(px.Root), "backend_tree": dump(bt.Root), "collisions": bt.Collisions}
			r.LogCase(desc)
			sent, got, raw, err := s.exchange(bt, rng)
			if err != nil {
				if s.c.EOF() {
					desc["error"] = err.Error()
					desc["sent_payload_hex"] = hex.EncodeToString(sent)
					r.Violation("merged-tree-not-delivered:connection-closed", "the player's connection was closed instead of delivering the merged command tree", desc)
				} else {
					r.Inconclusive(fmt.Sprintf("world %d player %s tree %d: %v", wi, name, ti, err))
				}
				if raw != nil {
					cn.add("received_trees_not_decodable_by_monitor", 1)
				}
				break
			}
			j := &judge{pv: pv, px: px, bt: bt, perms: perms, rt: got, matched: map[int]bool{}, stats: map[string]int{}}
			j.run()
			r.Eval(1)
			h := sha1.Sum(append(append([]byte(fmt.Sprint(pv, permList(perms), wi)), sent...), 0))
			r.DistinctBytes(h[:])
			cn.add("trees_merged_and_judged", 1)
			cn.add("received_nodes_walked", len(got.Nodes))
			if len(j.out) > 0 {
				desc["received_tree"] = got.dump()
				for _, v := range j.out {
					desc["finding"] = v.what
					r.Violation(v.sig, v.what, desc)
				}
				continue
			}
			cn.merge(j.stats)
			if r.WantSample() {
				desc["received_tree"] = got.dump()
				desc["judgement"] = j.stats
				r.Sample(desc)
			}
		}
		s.c.Close()
	}
}

func TestC23(t *testing.T) {
	r := lib.Start(t, "C23")
	defer r.Finish()
	r.Rule("one case = one backend command tree (2..7 root commands, depth <= 4, 11 parser kinds, redirects incl. to the root, shared children; root names colliding exactly / by case with proxy commands) sent to one logged-in player (protocol from 393..775, permission set drawn per tree) on a live proxy with one generated proxy command tree (3..6 commands, depth <= 4, requirements on any node, redirects to allowed and disallowed nodes); distinct = distinct (protocol, permission set, proxy tree, backend tree bytes)")
	r.Assume("fake client/backend frame with the harness's own codec; the command tree is encoded and decoded by the monitor's own codec (wire_test.go); the packet id is looked up in Gate's registry (workload side only)")
	cn := &counters{m: map[string]int64{}}
	worlds := r.N(60, 2500)
	players, trees := 3, 12
	const workers = 6
	var wg sync.WaitGroup
	ch := make(chan int)
	for k := 0; k < workers; k++ {
		wg.Add(1)
		go func() {
			defer wg.Done()
			for wi := range ch {
				runWorld(r, wi, players, trees, cn)
			}
		}()
	}
	for wi := 0; wi < worlds; wi++ {
		ch <- wi
	}
	close(ch)
	wg.Wait()

	runCycleClass(r, cn)

	cn.mu.Lock()
	for k, v := range cn.m {
		r.Set(k, v)
	}
	cn.mu.Unlock()
}
