// C29: Lite routes the first route whose host pattern matches the cleaned host.
//
// Monitors (all differential against the reference in ref.go, which never imports Gate):
//
//  1. function level, bulk: lite.ClearVirtualHost and lite.FindRouteWithGroups on generated
//     (virtual host, route list) pairs. Oracle: cleaned host == reference cleaning; chosen
//     route/pattern == first (route, pattern) in configuration order that matches under the
//     recursive reference glob matcher over the lower-cased cleaned host; groups only
//     checked for consistency (one per wildcard, pattern with wildcards replaced by groups
//     spells the host, '?' groups one character).
//  2. Forward level: the real lite.Forward (driven like the proxy's handshake handler does)
//     with an injected log sink and loopback listeners. Observed: which pattern Gate routed
//     on, the backend addresses it tried (= the substituted candidate list), and the
//     connections the listeners really accepted. Oracle: candidates == simultaneous $n
//     substitution of the first matching route's backends (any consistent group split, both
//     defensible tokenisations of "$12"); a host that matches no route is closed with no
//     dial (no try logged, no connection accepted by any listener).
package c29

import (
	"fmt"
	"io"
	"net"
	"strings"
	"sync"
	"sync/atomic"
	"testing"
	"time"

	"go.minekube.com/gate/pkg/edition/java/lite"
	"go.minekube.com/gate/pkg/edition/java/lite/config"
	"go.minekube.com/gate/pkg/edition/java/proxy/verifh/e2e/litefwd"
	"go.minekube.com/gate/pkg/edition/java/proxy/verifh/lib"
)

func toRoutes(rs []routeSpec) []config.Route {
	out := make([]config.Route, len(rs))
	for i, r := range rs {
		out[i] = config.Route{Host: append([]string(nil), r.Hosts...), Backend: append([]string(nil), r.Backends...)}
	}
	return out
}

func allPatterns(rs []routeSpec) []string {
	var out []string
	for _, r := range rs {
		out = append(out, r.Hosts...)
	}
	return out
}

// mismatchSignature names the kind of routing deviation from the witness.
func mismatchSignature(cleaned string, routes []routeSpec, refRi, refPi, gotRi int, gotPat string) string {
	if strings.Contains(cleaned, "\n") {
		// would Gate's answer be right if wildcards could not absorb a line feed?
		ri, pi := refFirstMatch(cleaned, routes, false)
		if ri == gotRi && (ri < 0 || routes[ri].Hosts[pi] == gotPat) {
			return "wildcard-does-not-match-newline"
		}
	}
	switch {
	case gotRi < 0:
		return "matching-host-not-routed"
	case refRi < 0:
		return "non-matching-host-routed"
	case gotRi > refRi:
		return "later-route-chosen-over-first-match"
	case gotRi < refRi:
		return "earlier-non-matching-route-chosen"
	default:
		return "wrong-pattern-within-route"
	}
}

func TestC29(t *testing.T) {
	r := lib.Start(t, "C29")
	defer r.Finish()
	r.Rule("function-level case = (virtual host, route list of 1-6 routes x 1-3 glob patterns x 1-3 backend templates); patterns are derived from one base pattern by generalising runs into '*'/'?' (overlapping, so first-match order matters), hosts are instantiations / one-edit mutations of a pattern with random case flips, decorated with surrounding dots, TCPShield (///ip///ts) and Forge (\\x00FML\\x00, FML2, FML3, FORGE, FORGE2) suffixes; alphabet: letters, digits, '.', '-', '/', regex metacharacters, '$', upper case, non-ASCII (incl. İ, ß, ǆ, emoji), control characters incl. \\n; valid UTF-8 only. Forward-level case = the same through the real lite.Forward, plus unmatched hosts against live listeners and live $1 substitution onto a listener address. distinct = distinct (host, route list); non-trivial = at least one wildcard pattern in the list")
	r.Assume("reference glob matcher / cleaner / simultaneous substitution in ref.go are the specification (recursive matcher over runes after simple lower-casing)")
	r.Assume("Forward-level observations are taken from Gate's own log events ('failed to try backend', 'forwarding connection', 'failed to find route' and their backendAddr/route/virtualHost values) through an injected logr sink, cross-checked by loopback listeners' accept counts")

	// ---- 1. function level ----------------------------------------------------------------
	fnStart := time.Now()
	nFn := r.N(60000, 2400000)
	workers := 12
	var (
		matched, unmatched, conflicts, groupsChecked, nlHosts atomic.Int64
		classMu                                               sync.Mutex
		classes                                               = map[string]int{}
		features                                              = map[string]int{}
	)
	var wg sync.WaitGroup
	for w := 0; w < workers; w++ {
		wg.Add(1)
		go func(w int) {
			defer wg.Done()
			rng := r.Rng(fmt.Sprintf("fn-%d", w))
			localClasses := map[string]int{}
			localFeat := map[string]int{}
			n := nFn / workers
			for i := 0; i < n; i++ {
				if i%20000 == 19999 {
					lite.ResetPingCache() // public API; also empties the compiled-pattern cache (bounds memory)
				}
				c := genCase(rng)
				routes := toRoutes(c.Routes)
				gotClean := lite.ClearVirtualHost(c.Raw)
				wantClean := refClean(c.Raw)
				r.Eval(1)
				if gotClean != wantClean {
					r.Violation("cleaned-host-differs", "ClearVirtualHost disagrees with the reference cleaning (Forge/TCPShield suffix and surrounding dots removed)",
						map[string]any{"raw": c.Raw, "gate": gotClean, "reference": wantClean})
				}
				gotPat, gotRoute, groups := lite.FindRouteWithGroups(wantClean, routes...)
				gotRi := -1
				for k := range routes {
					if gotRoute == &routes[k] {
						gotRi = k
					}
				}
				refRi, refPi := refFirstMatch(wantClean, c.Routes, true)
				ok := gotRi == refRi && (refRi < 0 || c.Routes[refRi].Hosts[refPi] == gotPat)
				if !ok {
					sig := mismatchSignature(wantClean, c.Routes, refRi, refPi, gotRi, gotPat)
					want := "no route"
					if refRi >= 0 {
						want = fmt.Sprintf("route %d pattern %q", refRi, c.Routes[refRi].Hosts[refPi])
					}
					r.Violation(sig, "FindRouteWithGroups chose another route than the first whose pattern matches the cleaned host under the reference glob matcher",
						map[string]any{"raw_host": c.Raw, "cleaned": wantClean, "routes": c.Routes, "gate_route": gotRi, "gate_pattern": gotPat, "reference": want})
				} else if refRi >= 0 {
					matched.Add(1)
					if good, why := groupsConsistent(gotPat, wantClean, groups); !good {
						r.Violation("groups-inconsistent", "captured groups are not a consistent split of the host: "+why,
							map[string]any{"cleaned": wantClean, "pattern": gotPat, "groups": groups})
					}
					groupsChecked.Add(1)
					// how many patterns match in total? (>1 => first-match order was decisive)
					m := 0
					h := refLower(wantClean)
					for _, p := range allPatterns(c.Routes) {
						if globMatch(refLower(p), h, true) {
							m++
						}
					}
					if m > 1 {
						conflicts.Add(1)
					}
				} else {
					unmatched.Add(1)
				}
				if strings.Contains(wantClean, "\n") {
					nlHosts.Add(1)
				}
				pats := allPatterns(c.Routes)
				cl := classify(c.Raw, pats)
				localClasses[cl.key()]++
				for _, f := range strings.Split(cl.key(), ",") {
					if f != "" {
						localFeat[f]++
					}
				}
				if cl.Star || cl.Quest {
					r.Distinct(c.Raw + "\x1f" + strings.Join(pats, "\x1e"))
				}
				if w == 0 && r.WantSample() {
					r.Sample(map[string]any{"level": "function", "raw_host": c.Raw, "cleaned": wantClean, "routes": c.Routes, "gate_route": gotRi, "gate_pattern": gotPat, "groups": groups})
				}
			}
			classMu.Lock()
			for k, v := range localClasses {
				classes[k] += v
			}
			for k, v := range localFeat {
				features[k] += v
			}
			classMu.Unlock()
		}(w)
	}
	wg.Wait()
	lite.ResetPingCache()
	r.Set("fn_phase_wall_s", time.Since(fnStart).Seconds())
	r.Set("fn_matched", matched.Load())
	r.Set("fn_unmatched", unmatched.Load())
	r.Set("fn_first_match_decisive", conflicts.Load())
	r.Set("fn_groups_checked", groupsChecked.Load())
	r.Set("fn_hosts_with_newline", nlHosts.Load())
	r.Set("fn_distinct_feature_combinations", len(classes))
	r.Set("fn_feature_counts", features)

	// ---- 2. Forward level -----------------------------------------------------------------
	forwardLevel(r)
}

type fwObs struct {
	NoRoute   bool
	RoutePat  string
	VHost     string
	Tries     []string
	Forwarded bool
	Guard     bool
	Returned  bool
	SawHS     bool
}

// runForward drives one connection through lite.Forward and waits until Forward returned.
// closeAfter: once forwarding started, close the client so that Forward returns.
func runForward(routes []config.Route, raw string, dialTimeout time.Duration, limit int) (fwObs, *litefwd.Session) {
	s := litefwd.Start(litefwd.Options{Routes: routes, SM: lite.NewStrategyManager(), DialTimeout: dialTimeout, TryLimit: limit})
	hs := litefwd.Handshake{Protocol: 765, Address: raw, Port: 25565, Next: 2}
	_, _ = s.Client.Write(hs.Frame())
	var o fwObs
	// a forwarded connection stays open until the client leaves: read until the backend's
	// greeting arrives or the connection is closed, then close.
	done := make(chan struct{})
	go func() {
		defer close(done)
		buf := make([]byte, 16)
		_, _ = io.ReadAtLeast(s.Client, buf, 1)
		_ = s.Client.Close()
	}()
	ok, _ := lib.Returns(30*time.Second, func() { <-done; <-s.LoopReturned() })
	o.Returned = ok
	o.SawHS = s.SawHandshake()
	if !ok {
		return o, s
	}
	o.Guard = s.Panic() != nil
	if e, found := s.Rec.Find(litefwd.MsgNoRoute); found {
		o.NoRoute = true
		o.VHost = e.KV["virtualHost"]
	}
	for _, e := range s.Rec.Events() {
		if e.Msg == litefwd.MsgTryFailed || e.Msg == litefwd.MsgForwarding {
			o.RoutePat = e.KV["route"]
			o.VHost = e.KV["virtualHost"]
		}
	}
	o.Tries, _, o.Forwarded = s.Rec.Tries()
	return o, s
}

func distinctInOrder(xs []string) []string {
	seen := map[string]bool{}
	var out []string
	for _, x := range xs {
		if !seen[x] {
			seen[x] = true
			out = append(out, x)
		}
	}
	return out
}

type fwTotals struct {
	mu                                                                                                           sync.Mutex
	candChecked, substChecked, substSkippedAmbiguous, guardAborts, noRouteSeen, caseVariant, unmatchedOK, liveOK int
	accepts                                                                                                      int64
}

func forwardLevel(r *lib.Run) {
	const W = 4
	var tot fwTotals
	var wg sync.WaitGroup
	for wk := 0; wk < W; wk++ {
		wg.Add(1)
		go func(wk int) {
			defer wg.Done()
			forwardWorker(r, wk, r.N(1200, 24000)/W, r.N(250, 4000)/W, r.N(150, 2000)/W, &tot)
		}(wk)
	}
	wg.Wait()
	r.Set("fw_candidate_lists_checked", tot.candChecked)
	r.Set("fw_substitutions_checked", tot.substChecked)
	r.Set("fw_substitutions_skipped_too_ambiguous", tot.substSkippedAmbiguous)
	r.Set("fw_case_variant_accepted", tot.caseVariant)
	r.Set("fw_retry_guard_aborts_left_to_C30", tot.guardAborts)
	r.Set("fw_no_route_events_seen", tot.noRouteSeen)
	r.Set("fw_unmatched_no_dial_confirmed", tot.unmatchedOK)
	r.Set("fw_live_substitution_dials_confirmed", tot.liveOK)
	r.Set("fw_listener_accepts_total", tot.accepts)
}

func forwardWorker(r *lib.Run, wk, nCand, nUnmatched, nLive int, tot *fwTotals) {
	rng := r.Rng(fmt.Sprintf("forward-%d", wk))

	var accepts atomic.Int64
	be, err := litefwd.Listen(0, func(c net.Conn, idx int) {
		accepts.Add(1)
		_, _ = c.Write([]byte("G")) // greeting: tells the fake client that forwarding started
		_, _ = io.Copy(io.Discard, c)
		_ = c.Close()
	})
	if err != nil {
		r.Inconclusive("cannot listen on loopback: " + err.Error())
		return
	}
	defer be.Close()
	live := fmt.Sprintf("127.0.0.1:%d", be.Port)

	var candChecked, substChecked, substSkippedAmbiguous, guardAborts, noRouteSeen, caseVariant int

	// 2a'. one route list shared by successive connections, as the proxy's configuration snapshot
	// is between reloads: every connection's candidates are computed from the ROUTE'S templates
	// and its own host, never from what an earlier connection substituted
	sharedChecked := 0
	for i := 0; i < nCand/10+2; i++ {
		label := []string{"alpha", "beta", "gamma", "delta", "a-1", "x9"}
		routes := toRoutes([]routeSpec{{Hosts: []string{"*.shared.example.test"}, Backends: []string{"$1.svc.local:25565", "fixed.local:25566", "pre-$1:1"}},
			{Hosts: []string{"*"}, Backends: []string{"catchall.local:25565"}}})
		for k := 0; k < 3+rng.Intn(3); k++ {
			sub := label[rng.Intn(len(label))]
			o, _ := runForward(routes, sub+".shared.example.test", time.Nanosecond, 12)
			r.Eval(1)
			if !o.Returned || !o.SawHS {
				r.Inconclusive("Forward did not return / decode the handshake (shared route list)")
				continue
			}
			got := distinctInOrder(o.Tries)
			want := []string{sub + ".svc.local:25565", "fixed.local:25566", "pre-" + sub + ":1"}
			sharedChecked++
			if strings.Join(got, "\x1e") != strings.Join(want, "\x1e") {
				r.Violation("substitution-uses-an-earlier-connections-groups", "a later connection over the same route list was given backends substituted for an earlier connection's host",
					map[string]any{"host": sub + ".shared.example.test", "connection_number_on_this_route_list": k + 1, "tried": got, "reference": want})
			}
		}
	}
	r.Count("fw_connections_over_a_shared_route_list_checked", sharedChecked)

	// 2a. candidate lists (dial deadline already expired: nothing reaches the network)
	for i := 0; i < nCand; i++ {
		c := genCase(rng)
		if i%5 == 4 {
			c = genDollarCase(rng)
		}
		cleaned := refClean(c.Raw)
		refRi, refPi := refFirstMatch(cleaned, c.Routes, true)
		if refRi < 0 && rng.Intn(4) != 0 {
			i--
			continue // mostly matched cases here; unmatched ones are 2b's business
		}
		if wk == 0 {
			r.LogCase(c)
		}
		nb := 0
		for _, rt := range c.Routes {
			nb += len(rt.Backends)
		}
		o, _ := runForward(toRoutes(c.Routes), c.Raw, time.Nanosecond, 3*nb+6)
		r.Eval(1)
		if !o.Returned {
			r.Inconclusive("Forward did not return within the watchdog (candidate case)")
			continue
		}
		if !o.SawHS {
			r.Inconclusive("Gate did not decode the generated handshake")
			continue
		}
		r.Distinct("fw\x1f" + c.Raw + "\x1f" + strings.Join(allPatterns(c.Routes), "\x1e"))
		if o.Guard {
			guardAborts++ // unbounded retry of one candidate: C30's business, the prefix is still judged here
		}
		if (o.NoRoute || len(o.Tries) > 0) && o.VHost != cleaned {
			r.Violation("cleaned-host-differs", "the virtual host Forward routed on differs from the reference cleaning",
				map[string]any{"raw": c.Raw, "gate": o.VHost, "reference": cleaned})
		}
		if refRi < 0 {
			if len(o.Tries) > 0 {
				r.Violation("unmatched-host-dialled", "a host matching no route made Forward try a backend",
					map[string]any{"raw_host": c.Raw, "cleaned": cleaned, "routes": c.Routes, "tried": o.Tries, "gate_pattern": o.RoutePat})
			} else if o.NoRoute {
				noRouteSeen++
			} else {
				r.Inconclusive("neither a no-route event nor a backend try was logged (log messages changed?)")
			}
			continue
		}
		wantPat := c.Routes[refRi].Hosts[refPi]
		if len(o.Tries) == 0 {
			if o.NoRoute {
				r.Violation(mismatchSignature(cleaned, c.Routes, refRi, refPi, -1, ""), "Forward closed a connection whose host matches a route without trying any backend",
					map[string]any{"raw_host": c.Raw, "cleaned": cleaned, "routes": c.Routes, "reference": fmt.Sprintf("route %d pattern %q", refRi, wantPat)})
			} else {
				r.Inconclusive("matched host: neither a no-route event nor a backend try was logged")
			}
			continue
		}
		if o.RoutePat != wantPat {
			gotRi := -1
			for k, rt := range c.Routes {
				for _, p := range rt.Hosts {
					if p == o.RoutePat && gotRi < 0 {
						gotRi = k
					}
				}
			}
			r.Violation(mismatchSignature(cleaned, c.Routes, refRi, refPi, gotRi, o.RoutePat), "Forward routed on another pattern than the first matching one",
				map[string]any{"raw_host": c.Raw, "cleaned": cleaned, "routes": c.Routes, "gate_pattern": o.RoutePat, "reference": wantPat})
			continue
		}
		candChecked++
		// expected candidates: every consistent split x both tokenisations
		splits := refSplits(refLower(wantPat), refLower(cleaned), 65)
		if len(splits) == 0 || len(splits) > 64 {
			substSkippedAmbiguous++
			continue
		}
		got := distinctInOrder(o.Tries)
		okAny := false
		var firstWant []string
		for _, sp := range splits {
			for _, maximal := range []bool{true, false} {
				var want []string
				for _, tpl := range c.Routes[refRi].Backends {
					want = append(want, refSubst(tpl, sp, maximal))
				}
				want = distinctInOrder(want)
				if firstWant == nil {
					firstWant = want
				}
				cmp := want
				if o.Guard && len(got) < len(want) {
					cmp = want[:len(got)]
				}
				if strings.Join(cmp, "\x1e") == strings.Join(got, "\x1e") {
					okAny = true
				} else if strings.EqualFold(strings.Join(cmp, "\x1e"), strings.Join(got, "\x1e")) {
					okAny = true
					caseVariant++
				}
			}
		}
		substChecked++
		if !okAny {
			sig := "substitution-mismatch"
			for _, sp := range splits {
				for _, g := range sp {
					for d := '1'; d <= '9'; d++ {
						if strings.Contains(g, "$"+string(d)) {
							sig = "substitution-reexpands-group-text"
						}
					}
					if strings.HasSuffix(g, "$") {
						sig = "substitution-reexpands-group-text"
					}
				}
			}
			r.Violation(sig, "the backend addresses Forward tried are not the simultaneous $n substitution of the route's backends for any consistent group split",
				map[string]any{"raw_host": c.Raw, "cleaned": cleaned, "pattern": wantPat, "templates": c.Routes[refRi].Backends, "gate_tried": o.Tries, "reference_first_split": firstWant, "splits": splits})
		}
		if wk == 0 && r.WantSample() {
			r.Sample(map[string]any{"level": "forward", "raw_host": c.Raw, "pattern": wantPat, "templates": c.Routes[refRi].Backends, "gate_tried": o.Tries})
		}
	}

	// 2b. unmatched hosts against routes whose every backend is a live listener
	unmatchedOK := 0
	for i := 0; i < nUnmatched; i++ {
		c := genCase(rng)
		cleaned := refClean(c.Raw)
		if ri, _ := refFirstMatch(cleaned, c.Routes, true); ri >= 0 {
			i--
			continue
		}
		for k := range c.Routes {
			for j := range c.Routes[k].Backends {
				c.Routes[k].Backends[j] = live
			}
		}
		r.LogCase(c)
		before := accepts.Load()
		o, _ := runForward(toRoutes(c.Routes), c.Raw, 5*time.Second, 20)
		r.Eval(1)
		if !o.Returned || !o.SawHS {
			r.Inconclusive("unmatched case: Forward did not return or handshake not decoded")
			continue
		}
		r.Distinct("un\x1f" + c.Raw + "\x1f" + strings.Join(allPatterns(c.Routes), "\x1e"))
		time.Sleep(time.Millisecond)
		if d := accepts.Load() - before; d != 0 || len(o.Tries) > 0 {
			r.Violation("unmatched-host-dialled", "a host matching no route reached a backend listener",
				map[string]any{"raw_host": c.Raw, "cleaned": cleaned, "routes": c.Routes, "accepted": d, "tried": o.Tries, "gate_pattern": o.RoutePat})
			continue
		}
		if o.NoRoute {
			unmatchedOK++
		}
	}

	// 2c. live substitution: the group text itself is the listener's host
	liveOK := 0
	hostsForGroup := []string{"127.0.0.1", "localhost", "LOCALHOST", "LocalHost"}
	for i := 0; i < nLive; i++ {
		suffix := "." + strings.Trim(strings.Map(func(r rune) rune {
			if r == '*' || r == '?' || r == '/' || r == 0 {
				return 'q'
			}
			return r
		}, randText(rng, 1, 6)), ".") + "x"
		g := hostsForGroup[rng.Intn(len(hostsForGroup))]
		raw := decorate(rng, g+flipCase(rng, suffix))
		if ri, pi := refFirstMatch(refClean(raw), []routeSpec{{Hosts: []string{"nomatch" + suffix}}, {Hosts: []string{"*" + suffix}}}, true); ri != 1 || pi != 0 {
			i--
			continue
		}
		routes := []routeSpec{
			{Hosts: []string{"nomatch" + suffix}, Backends: []string{"127.0.0.1:1"}},
			{Hosts: []string{"*" + suffix, "*"}, Backends: []string{fmt.Sprintf("$1:%d", be.Port)}},
			{Hosts: []string{"*"}, Backends: []string{"127.0.0.1:1"}},
		}
		c := fnCase{Raw: raw, Routes: routes}
		r.LogCase(c)
		before := accepts.Load()
		o, _ := runForward(toRoutes(routes), raw, 5*time.Second, 20)
		r.Eval(1)
		if !o.Returned || !o.SawHS {
			r.Inconclusive("live case: Forward did not return or handshake not decoded")
			continue
		}
		r.Distinct("live\x1f" + raw)
		want := fmt.Sprintf("%s:%d", strings.ToLower(g), be.Port)
		d := accepts.Load() - before
		switch {
		case len(o.Tries) == 1 && strings.EqualFold(o.Tries[0], want) && o.Forwarded && d == 1:
			liveOK++
		case o.NoRoute:
			r.Violation(mismatchSignature(refClean(raw), routes, 1, 0, -1, ""), "a host matching a route was not routed",
				map[string]any{"raw_host": raw, "routes": routes})
		default:
			r.Violation("live-substitution-wrong-dial", "Forward did not dial exactly the substituted backend address once",
				map[string]any{"raw_host": raw, "routes": routes, "tried": o.Tries, "forwarded": o.Forwarded, "accepted": d, "want": want})
		}
	}

	tot.mu.Lock()
	defer tot.mu.Unlock()
	tot.candChecked += candChecked
	tot.substChecked += substChecked
	tot.substSkippedAmbiguous += substSkippedAmbiguous
	tot.caseVariant += caseVariant
	tot.guardAborts += guardAborts
	tot.noRouteSeen += noRouteSeen
	tot.unmatchedOK += unmatchedOK
	tot.liveOK += liveOK
	tot.accepts += accepts.Load()
}
