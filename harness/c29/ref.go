package c29

import (
	"strings"
	"unicode"
	"unicode/utf8"
)

// ---- reference model (never imports the Gate code it judges) ----------------------------

// refClean removes Forge ("\x00...") and TCPShield ("///...") suffixes and the surrounding dots.
func refClean(s string) string {
	cut := len(s)
	if i := strings.Index(s, "\x00"); i >= 0 && i < cut {
		cut = i
	}
	if i := strings.Index(s, "///"); i >= 0 && i < cut {
		cut = i
	}
	s = s[:cut]
	for len(s) > 0 && s[0] == '.' {
		s = s[1:]
	}
	for len(s) > 0 && s[len(s)-1] == '.' {
		s = s[:len(s)-1]
	}
	return s
}

// refLower lower-cases rune by rune (simple case mapping; the statement's "compared
// case-insensitively" is read as equality after simple lower-casing, which is the reading
// under which Gate's strings.ToLower passes; full Unicode case folding is not demanded).
func refLower(s string) []rune {
	rs := []rune(s)
	for i, r := range rs {
		rs[i] = unicode.ToLower(r)
	}
	return rs
}

// globMatch: '*' any sequence of characters (also empty), '?' exactly one character, every
// other rune literal. Recursive with memoisation. If nlWild is false the wildcards refuse
// to absorb '\n' (only used to *name* a deviation, never to judge).
func globMatch(pat, s []rune, nlWild bool) bool {
	memo := map[[2]int]bool{}
	var rec func(i, j int) bool
	rec = func(i, j int) bool {
		if i == len(pat) {
			return j == len(s)
		}
		k := [2]int{i, j}
		if v, ok := memo[k]; ok {
			return v
		}
		var res bool
		switch pat[i] {
		case '*':
			// absorb nothing, or one more character
			res = rec(i+1, j) || (j < len(s) && (nlWild || s[j] != '\n') && rec(i, j+1))
		case '?':
			res = j < len(s) && (nlWild || s[j] != '\n') && rec(i+1, j+1)
		default:
			res = j < len(s) && s[j] == pat[i] && rec(i+1, j+1)
		}
		memo[k] = res
		return res
	}
	return rec(0, 0)
}

type routeSpec struct {
	Hosts    []string
	Backends []string
}

// refFirstMatch returns the first (route, pattern) in configuration order whose pattern
// matches the cleaned host.
func refFirstMatch(cleaned string, routes []routeSpec, nlWild bool) (ri, pi int) {
	h := refLower(cleaned)
	for i, rt := range routes {
		for j, p := range rt.Hosts {
			if globMatch(refLower(p), h, nlWild) {
				return i, j
			}
		}
	}
	return -1, -1
}

func countWild(p string) int {
	n := 0
	for _, r := range p {
		if r == '*' || r == '?' {
			n++
		}
	}
	return n
}

// groupsConsistent: the pattern with its wildcards replaced by the groups must spell the
// host (case-insensitively), one group per wildcard, '?' groups exactly one character.
// Which of several possible splits Gate reports is not judged.
func groupsConsistent(pattern, cleaned string, groups []string) (bool, string) {
	if len(groups) != countWild(pattern) {
		return false, "group count differs from the number of wildcards"
	}
	var b []rune
	gi := 0
	for _, r := range pattern {
		switch r {
		case '*':
			b = append(b, refLower(groups[gi])...)
			gi++
		case '?':
			if utf8.RuneCountInString(groups[gi]) != 1 {
				return false, "'?' group is not exactly one character"
			}
			b = append(b, refLower(groups[gi])...)
			gi++
		default:
			b = append(b, unicode.ToLower(r))
		}
	}
	if string(b) != string(refLower(cleaned)) {
		return false, "pattern with wildcards replaced by the groups does not spell the host"
	}
	return true, ""
}

// refSplit returns one consistent assignment of groups (leftmost-shortest) for a matching
// pattern; used only to compute the expected substituted backend when Gate's own groups
// are not observable (Forward-level cases), so it must agree with Gate only where the
// assignment is unique — ambiguous cases are excluded by the caller.
func refSplits(pat, s []rune, limit int) [][]string {
	var out [][]string
	var cur []string
	var rec func(i, j int)
	rec = func(i, j int) {
		if len(out) >= limit {
			return
		}
		if i == len(pat) {
			if j == len(s) {
				out = append(out, append([]string(nil), cur...))
			}
			return
		}
		switch pat[i] {
		case '*':
			for k := j; k <= len(s); k++ {
				cur = append(cur, string(s[j:k]))
				rec(i+1, k)
				cur = cur[:len(cur)-1]
			}
		case '?':
			if j < len(s) {
				cur = append(cur, string(s[j:j+1]))
				rec(i+1, j+1)
				cur = cur[:len(cur)-1]
			}
		default:
			if j < len(s) && s[j] == pat[i] {
				rec(i+1, j+1)
			}
		}
	}
	rec(0, 0)
	return out
}

// substitution ------------------------------------------------------------------------------

// refSubst replaces $n by groups[n-1] simultaneously (one left-to-right pass over the
// template; inserted text is never rescanned). The statement does not say how "$12" is to
// be tokenised when fewer than 12 groups exist, so both defensible tokenisations are
// computed and Gate may produce either:
//
//	maximal: the longest digit run is the index; out of range => left as is
//	         (Gate's own doc comment: "$99 stays $99")
//	prefix : the longest digit prefix (no leading zero) that is an index in range
func refSubst(template string, groups []string, maximal bool) string {
	if len(groups) == 0 {
		return template
	}
	var b strings.Builder
	for i := 0; i < len(template); {
		if template[i] != '$' {
			b.WriteByte(template[i])
			i++
			continue
		}
		j := i + 1
		for j < len(template) && template[j] >= '0' && template[j] <= '9' {
			j++
		}
		digits := template[i+1 : j]
		if digits == "" || digits[0] == '0' {
			b.WriteByte('$')
			i++
			continue
		}
		if maximal {
			if n := atoiCap(digits); n >= 1 && n <= len(groups) {
				b.WriteString(groups[n-1])
			} else {
				b.WriteString(template[i:j])
			}
			i = j
			continue
		}
		done := false
		for k := len(digits); k >= 1; k-- {
			if n := atoiCap(digits[:k]); n >= 1 && n <= len(groups) {
				b.WriteString(groups[n-1])
				i = i + 1 + k
				done = true
				break
			}
		}
		if !done {
			b.WriteByte('$')
			i++
		}
	}
	return b.String()
}

func atoiCap(d string) int {
	n := 0
	for _, c := range d {
		n = n*10 + int(c-'0')
		if n > 1<<20 {
			return 1 << 20
		}
	}
	return n
}
