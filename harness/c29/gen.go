package c29

import (
	"math/rand"
	"strings"
	"unicode"
)

// alphabet classes -------------------------------------------------------------------------

var (
	plain    = []rune("abcdexyz019-")
	upper    = []rune("ABXYZ")
	regexMet = []rune(`+()[]{}^$|\`)
	nonASCII = []rune("éßİΩ日ǆ🙂")
	control  = []rune{'\n', '\n', '\t', '\r', 0x01, 0x7f, ' '}
)

type caseClass struct {
	Dot, Star, Quest, Regex, Dollar, Upper, NonASCII, Control, Newline, Forge, TCPShield, SurroundDots bool
}

func (c caseClass) key() string {
	var b strings.Builder
	for _, f := range []struct {
		on bool
		n  string
	}{{c.Dot, "dot"}, {c.Star, "star"}, {c.Quest, "quest"}, {c.Regex, "regex"}, {c.Dollar, "dollar"}, {c.Upper, "upper"}, {c.NonASCII, "nonascii"}, {c.Control, "ctrl"}, {c.Newline, "nl"}, {c.Forge, "forge"}, {c.TCPShield, "tcpshield"}, {c.SurroundDots, "dots"}} {
		if f.on {
			b.WriteString(f.n)
			b.WriteByte(',')
		}
	}
	return b.String()
}

func classify(raw string, patterns []string) caseClass {
	var c caseClass
	scan := func(s string) {
		for _, r := range s {
			switch {
			case r == '.':
				c.Dot = true
			case r == '$':
				c.Dollar = true
			case strings.ContainsRune(`+()[]{}^|\`, r):
				c.Regex = true
			case r == '\n':
				c.Newline, c.Control = true, true
			case r < 0x20 && r != 0 || r == 0x7f:
				c.Control = true
			case r > 0x7f:
				c.NonASCII = true
			case unicode.IsUpper(r):
				c.Upper = true
			}
		}
	}
	scan(raw)
	for _, p := range patterns {
		scan(p)
		if strings.Contains(p, "*") {
			c.Star = true
		}
		if strings.Contains(p, "?") {
			c.Quest = true
		}
	}
	c.Forge = strings.Contains(raw, "\x00")
	c.TCPShield = strings.Contains(raw, "///")
	c.SurroundDots = strings.HasPrefix(raw, ".") || strings.Contains(raw, ".\x00") || strings.Contains(raw, ".///") || (strings.HasSuffix(raw, ".") && !c.Forge && !c.TCPShield)
	return c
}

func pickRune(rng *rand.Rand) rune {
	switch x := rng.Intn(100); {
	case x < 50:
		return plain[rng.Intn(len(plain))]
	case x < 62:
		return '.'
	case x < 70:
		return upper[rng.Intn(len(upper))]
	case x < 78:
		return regexMet[rng.Intn(len(regexMet))]
	case x < 84:
		return nonASCII[rng.Intn(len(nonASCII))]
	case x < 90:
		return control[rng.Intn(len(control))]
	case x < 94:
		return '$'
	case x < 97:
		return rune('1' + rng.Intn(3))
	default:
		return '/'
	}
}

func randText(rng *rand.Rand, min, max int) string {
	n := min
	if max > min {
		n += rng.Intn(max - min + 1)
	}
	rs := make([]rune, n)
	for i := range rs {
		rs[i] = pickRune(rng)
	}
	return string(rs)
}

// genPattern: literal text with wildcards sprinkled in. Patterns are configuration, so no
// NUL bytes and no "///" (a pattern containing those can never equal a cleaned host).
func genPattern(rng *rand.Rand) string {
	segs := 1 + rng.Intn(4)
	var b strings.Builder
	for i := 0; i < segs; i++ {
		switch rng.Intn(6) {
		case 0, 1:
			b.WriteByte('*')
		case 2:
			b.WriteByte('?')
		}
		b.WriteString(randText(rng, 0, 4))
	}
	if rng.Intn(4) == 0 {
		b.WriteByte('*')
	}
	p := strings.ReplaceAll(b.String(), "///", "/")
	if p == "" {
		p = "*"
	}
	return p
}

// generalise derives an overlapping pattern from p: some runs replaced by wildcards.
func generalise(rng *rand.Rand, p string) string {
	rs := []rune(p)
	if len(rs) == 0 {
		return "*"
	}
	out := make([]rune, 0, len(rs))
	for i := 0; i < len(rs); i++ {
		switch rng.Intn(8) {
		case 0:
			out = append(out, '?')
		case 1:
			out = append(out, '*')
			i += rng.Intn(3)
		default:
			out = append(out, rs[i])
		}
	}
	return string(out)
}

// instantiate builds a host that matches p (before case flips).
func instantiate(rng *rand.Rand, p string) string {
	var b strings.Builder
	for _, r := range p {
		switch r {
		case '*':
			b.WriteString(randText(rng, 0, 4))
		case '?':
			b.WriteRune(pickRune(rng))
		default:
			b.WriteRune(r)
		}
	}
	return b.String()
}

func flipCase(rng *rand.Rand, s string) string {
	rs := []rune(s)
	for i, r := range rs {
		if rng.Intn(3) == 0 {
			if unicode.IsLower(r) {
				rs[i] = unicode.ToUpper(r)
			} else if unicode.IsUpper(r) {
				rs[i] = unicode.ToLower(r)
			}
		}
	}
	return string(rs)
}

func mutate(rng *rand.Rand, s string) string {
	rs := []rune(s)
	switch rng.Intn(3) {
	case 0:
		if len(rs) > 0 {
			i := rng.Intn(len(rs))
			rs = append(rs[:i], rs[i+1:]...)
		}
	case 1:
		i := rng.Intn(len(rs) + 1)
		rs = append(rs[:i], append([]rune{pickRune(rng)}, rs[i:]...)...)
	case 2:
		if len(rs) > 0 {
			rs[rng.Intn(len(rs))] = pickRune(rng)
		}
	}
	return string(rs)
}

var forgeSuffixes = []string{"\x00FML\x00", "\x00FML2\x00", "\x00FML3\x00", "\x00FORGE", "\x00FORGE2"}

// decorate wraps the bare host like real clients / upstream proxies do.
func decorate(rng *rand.Rand, host string) string {
	s := host
	if rng.Intn(4) == 0 {
		s = strings.Repeat(".", 1+rng.Intn(2)) + s
	}
	if rng.Intn(3) == 0 {
		s += strings.Repeat(".", 1+rng.Intn(2))
	}
	if rng.Intn(4) == 0 {
		s += "///203.0.113.7:54321///1700000000"
	}
	if rng.Intn(3) == 0 {
		s += forgeSuffixes[rng.Intn(len(forgeSuffixes))]
	}
	return s
}

type fnCase struct {
	Raw    string
	Routes []routeSpec
}

var backendTemplates = []string{
	"$1.svc:25565", "$1-$2.svc:25565", "$2.$1:25565", "$1$1:1", "static.backend:25565", "$3.$2.$1:2", "$12.x:1", "$1$2:3", "a$1b:$2", "$0.$1:4", "$01:5", "$$1:6", "$1", "10.0.0.$1:25565",
}

// genCase builds a route list of 1-6 routes with overlapping patterns and a host that
// is (mostly) derived from one of the patterns so that matches, near misses and
// first-match conflicts are all frequent.
func genCase(rng *rand.Rand) fnCase {
	nr := 1 + rng.Intn(6)
	base := genPattern(rng)
	var all []string
	routes := make([]routeSpec, nr)
	for i := range routes {
		nh := 1 + rng.Intn(3)
		for j := 0; j < nh; j++ {
			var p string
			switch rng.Intn(5) {
			case 0:
				p = genPattern(rng)
			case 1:
				p = base
			default:
				p = generalise(rng, base)
			}
			if rng.Intn(6) == 0 {
				p = flipCase(rng, p)
			}
			routes[i].Hosts = append(routes[i].Hosts, p)
			all = append(all, p)
		}
		nb := 1 + rng.Intn(3)
		for j := 0; j < nb; j++ {
			routes[i].Backends = append(routes[i].Backends, backendTemplates[rng.Intn(len(backendTemplates))])
		}
	}
	var host string
	switch x := rng.Intn(10); {
	case x < 6:
		host = instantiate(rng, all[rng.Intn(len(all))])
	case x < 8:
		host = mutate(rng, instantiate(rng, all[rng.Intn(len(all))]))
	case x < 9:
		host = instantiate(rng, base)
	default:
		host = randText(rng, 0, 8)
	}
	if rng.Intn(2) == 0 {
		host = flipCase(rng, host)
	}
	return fnCase{Raw: decorate(rng, host), Routes: routes}
}

// genDollarCase: group texts that themselves contain "$n" (a hostile client chooses its
// virtual host), so that simultaneous and sequential substitution differ.
func genDollarCase(rng *rand.Rand) fnCase {
	pats := []string{"*.*.x", "*-*.lan", "?*.*", "*.?.*.y", "p*.*"}
	texts := []string{"$1", "$2", "a$1", "$", "x", "$3", "1", "$12", "b", "$2$1"}
	p := pats[rng.Intn(len(pats))]
	var b strings.Builder
	for _, r := range p {
		switch r {
		case '*':
			b.WriteString(texts[rng.Intn(len(texts))])
		case '?':
			b.WriteByte("ab$1"[rng.Intn(4)])
		default:
			b.WriteRune(r)
		}
	}
	rt := routeSpec{Hosts: []string{p}}
	for j := 0; j < 1+rng.Intn(3); j++ {
		rt.Backends = append(rt.Backends, backendTemplates[rng.Intn(len(backendTemplates))])
	}
	return fnCase{Raw: decorate(rng, b.String()), Routes: []routeSpec{{Hosts: []string{"never.example"}, Backends: []string{"127.0.0.1:1"}}, rt}}
}
