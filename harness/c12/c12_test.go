// C12: listing players and servers is safe during concurrent joins and leaves.
//
// Oracles (DESIGN §6 C12):
//  1. race detector: the driver parses the GORACE log; a report decides only if BOTH stacks pass
//     through the listing/registry functions named in checks.d/C12.json (race_allow).
//  2. crash monitor: a fatal "concurrent map iteration and map write" (or any unrecovered panic)
//     kills this process; the case is logged first (r.LogCase) and the driver classifies the
//     death (survive:true).
//  3. epoch tagging (mixed snapshots): all churn happens in numbered epochs. In epoch e the
//     churners add items tagged e (players to the registry and to a server's player list,
//     servers to the server registry), wait on a barrier, remove ALL of them, wait on a second
//     barrier, and only then does epoch e+1 start. Hence at every single moment all registered
//     tagged items carry ONE epoch tag, and a list that is a snapshot of one moment can never
//     contain two different tags. Listers run unsynchronised on their own goroutines.
//  4. DisconnectAll must return: after all churn has ended and every goroutine spawned by
//     DisconnectAll is gone, a caller still parked in its WaitGroup.Wait can never be released
//     (goroutine-dump proof, not a timeout verdict).
//
// Every registered player has a unique name and UUID, so registerConnection never rejects
// (rejections are C11's subject).
package c12

import (
	"context"
	"fmt"
	"reflect"
	"runtime"
	"runtime/debug"
	"strconv"
	"strings"
	"sync"
	"sync/atomic"
	"testing"
	"time"

	"github.com/robinbraemer/event"
	"go.minekube.com/common/minecraft/component"
	"go.minekube.com/gate/pkg/edition/java/auth"
	"go.minekube.com/gate/pkg/edition/java/config"
	"go.minekube.com/gate/pkg/edition/java/netmc"
	"go.minekube.com/gate/pkg/edition/java/profile"
	"go.minekube.com/gate/pkg/edition/java/proto/state"
	"go.minekube.com/gate/pkg/edition/java/proto/version"
	"go.minekube.com/gate/pkg/edition/java/proxy"
	"go.minekube.com/gate/pkg/edition/java/proxy/bungeecord"
	"go.minekube.com/gate/pkg/edition/java/proxy/verifh/lib"
	gproto "go.minekube.com/gate/pkg/gate/proto"
	"go.minekube.com/gate/pkg/util/netutil"
	"go.minekube.com/gate/pkg/util/uuid"
)

var sharedAuth = sync.OnceValue(func() auth.Authenticator {
	a, err := auth.New(auth.Options{})
	if err != nil {
		panic(err)
	}
	return a
})

// The exported listing entry points over players and servers (everything in the proxy package
// that iterates or sizes playerIDs / playerNames / a server's player list / servers and can be
// reached without a started proxy): Proxy.Players, PlayerCount, Player, PlayerByName, Servers,
// Server, DisconnectAll, RegisteredServer.Players().Range/.Len and the exported typed-slice
// helper PlayersToSlice in the three instantiations Gate itself uses (Player for "/send
// current", MessageSink and bungeecord.Player for the BungeeCord PlayerList / Message
// responders), plus the composition the built-in /glist and /server commands make of them
// (Servers, then Len and Range of every server's list, then PlayerCount). The built-in
// commands themselves and the BungeeCord responder adapter are unexported and only wired up by
// Proxy.Start / a live backend session; they consist of exactly these calls.
const (
	lPlayers = iota
	lPlayerCount
	lServerRange
	lServerLen
	lServers
	lDisconnectAll
	lToSlicePlayer
	lToSliceSink
	lToSliceBungee
	lPlayerLookup
	lServerLookup
	lGlist
	nListerKinds
)

var listerName = []string{"Players", "PlayerCount", "server.Players().Range", "server.Players().Len", "Servers", "DisconnectAll",
	"PlayersToSlice[Player]", "PlayersToSlice[MessageSink]", "PlayersToSlice[bungeecord.Player]", "Player+PlayerByName", "Server", "glist-composition"}

// panicClass names the kind of a recovered panic (stable across seeds: no indices, no addresses).
func panicClass(p any) string {
	s := fmt.Sprint(p)
	for _, k := range []string{"index out of range", "slice bounds out of range", "nil pointer dereference", "assignment to entry in nil map", "interface conversion", "makeslice", "negative"} {
		if strings.Contains(s, k) {
			return strings.ReplaceAll(k, " ", "-")
		}
	}
	return "other"
}

type runCfg struct {
	Run        int
	Registrars int
	PerEpoch   int // players per registrar per epoch
	Servers    int // tagged servers per epoch
	Epochs     int
	Listers    []int // kind per lister goroutine
	Hold       int   // yields while the epoch's set is stable
	Flaps      int   // per epoch each registrar's players leave and re-join the server's player list this often (a switch away and back)
	Procs      int
}

// barrier for n parties, reusable
type barrier struct {
	mu    sync.Mutex
	n, in int
	gen   chan struct{}
}

func newBarrier(n int) *barrier { return &barrier{n: n, gen: make(chan struct{})} }
func (b *barrier) wait() {
	b.mu.Lock()
	b.in++
	if b.in == b.n {
		b.in = 0
		close(b.gen)
		b.gen = make(chan struct{})
		b.mu.Unlock()
		return
	}
	g := b.gen
	b.mu.Unlock()
	<-g
}

// isNil also recognises an interface that wraps a nil *connectedPlayer (what a torn read of a
// map slot under concurrent modification can yield).
func isNil(p proxy.Player) bool {
	if p == nil {
		return true
	}
	v := reflect.ValueOf(p)
	return v.Kind() == reflect.Pointer && v.IsNil()
}

func tagOf(name string) int {
	// names are e<epoch>r..., e<epoch>s...
	if !strings.HasPrefix(name, "e") {
		return -1
	}
	i := 1
	for i < len(name) && name[i] >= '0' && name[i] <= '9' {
		i++
	}
	v, err := strconv.Atoi(name[1:i])
	if err != nil {
		return -1
	}
	return v
}

func TestC12(t *testing.T) {
	r := lib.Start(t, "C12")
	defer r.Finish()
	r.Rule("each case is one run on a fresh Proxy: 10-18 goroutines = 2-4 player registrars (1-4 uniquely named players each per epoch, registered through registerConnection and added to a server's player list, in three quarters of the runs leaving and re-joining that list 1-24 times within the epoch, later removed by unregisterConnection / connection close) + 1 server registrar (Register/Unregister of 1-3 tagged servers per epoch) + 5-15 free-running listers drawn from ALL exported listing entry points {Players, PlayerCount, Player/PlayerByName, Servers, Server, DisconnectAll, server.Players().Range, .Len, PlayersToSlice[Player], PlayersToSlice[MessageSink], PlayersToSlice[bungeecord.Player], the Servers+Len+Range+PlayerCount composition of /glist and /server}, at least one Players, one Range and one PlayersToSlice lister per run; 3-6 epochs separated by barriers with a full clear in between; distinct = distinct run configuration")
	r.Assume("the Go race detector reports the unsynchronised accesses that happen in a run (reports are parsed by the driver against race_allow); absence of a report is not a proof for schedules that did not occur")
	r.Assume("a panic inside a listing call is recovered in the lister's goroutine and reported with the listing function in the signature; fatal runtime errors (concurrent map access) end the process and are classified by the driver")
	r.Assume("epoch discipline: every tagged item of epoch e is removed before any item of epoch e+1 is added (two barriers), so any one-moment snapshot carries a single tag")

	runs := r.N(100, 2000)
	rng := r.Rng("runs")
	var calls [nListerKinds]atomic.Int64
	var nonEmpty, mixed, maxLen, registered, srvRegistered, daCalls, daPlayers, rejoins, listerPanics atomic.Int64

	r.Checkpoint()
	for run := 0; run < runs; run++ {
		cfg := runCfg{Run: run, Registrars: 2 + rng.Intn(3), PerEpoch: 1 + rng.Intn(4), Servers: 1 + rng.Intn(3), Epochs: 3 + rng.Intn(4), Hold: rng.Intn(40)}
		if rng.Intn(4) != 0 {
			cfg.Flaps = 1 + rng.Intn(24)
		}
		total := 10 + rng.Intn(9)
		nl := total - cfg.Registrars - 1
		// every run has at least one Players lister, one Range lister and one lister of the typed
		// slice helper (instantiation rotating over the runs); the rest is drawn
		cfg.Listers = []int{lPlayers, lServerRange, lToSlicePlayer + run%3}
		for len(cfg.Listers) < nl {
			k := rng.Intn(nListerKinds)
			// DisconnectAll only in every third run (it is rare in real life, and on a Gate
			// where it crashes the process the other listers still get runs of their own)
			if k == lDisconnectAll && (run%3 != 2 || rng.Intn(2) == 0) {
				k = lPlayers
			}
			cfg.Listers = append(cfg.Listers, k)
		}
		cfg.Procs = []int{2, 4, 16}[rng.Intn(3)]
		r.LogCase(cfg)
		prev := runtime.GOMAXPROCS(cfg.Procs)

		c := config.DefaultConfig
		c.OnlineMode = false
		px, err := proxy.New(proxy.Options{Config: &c, EventMgr: event.New(), Authenticator: sharedAuth()})
		if err != nil {
			r.Inconclusive("proxy.New: " + err.Error())
			runtime.GOMAXPROCS(prev)
			continue
		}
		lobby, err := px.Register(proxy.NewServerInfo("lobby", netutil.NewAddr("127.0.0.1:25566", "tcp")))
		if err != nil {
			r.Inconclusive("Register(lobby): " + err.Error())
			runtime.GOMAXPROCS(prev)
			continue
		}
		maxPlayers := cfg.Registrars * cfg.PerEpoch

		var stop atomic.Bool
		bar := newBarrier(cfg.Registrars + 1)
		var churn, list sync.WaitGroup
		type viol struct {
			sig, what string
			w         map[string]any
		}
		var vmu sync.Mutex
		var viols []viol
		perSig := map[string]int{}
		report := func(sig, what string, w map[string]any) {
			vmu.Lock()
			if perSig[sig]++; perSig[sig] <= 3 {
				viols = append(viols, viol{sig, what, w})
			}
			vmu.Unlock()
		}

		// ---- churners ------------------------------------------------------------------
		for reg := 0; reg < cfg.Registrars; reg++ {
			churn.Add(1)
			go func(reg int) {
				defer churn.Done()
				for e := 0; e < cfg.Epochs; e++ {
					type pl struct {
						h    *proxy.VerifC11Player
						conn netmc.MinecraftConn
					}
					var mine []pl
					for i := 0; i < cfg.PerEpoch; i++ {
						name := fmt.Sprintf("e%dr%dp%d", e, reg, i)
						a, _ := lib.Pipe()
						conn, _ := netmc.NewMinecraftConn(context.Background(), a, gproto.ServerBound, 0, 0, -1, nil)
						conn.SetProtocol(version.Minecraft_1_20.Protocol)
						conn.SetState(state.Login)
						h := proxy.VerifC11NewPlayer(px, conn, &profile.GameProfile{ID: uuid.OfflinePlayerUUID(name), Name: name},
							netutil.NewAddr("play.example.com:25565", "tcp"), false, true)
						if !h.Register() {
							report("unique-player-rejected", "registerConnection rejected a player with a unique name and uuid", map[string]any{"name": name})
							continue
						}
						registered.Add(1)
						proxy.VerifC11ServerPlayersAdd(lobby, h)
						mine = append(mine, pl{h, conn})
						runtime.Gosched()
					}
					bar.wait() // everything of epoch e is in
					for y := 0; y < cfg.Hold; y++ {
						runtime.Gosched()
					}
					// joins and leaves of the server's list within the epoch (same tag: the
					// one-tag clause is unaffected, the list only ever holds this epoch's players)
					for f := 0; f < cfg.Flaps; f++ {
						for _, m := range mine {
							proxy.VerifC11ServerPlayersRemove(lobby, m.h)
							runtime.Gosched()
							proxy.VerifC11ServerPlayersAdd(lobby, m.h)
							rejoins.Add(1)
						}
					}
					for i, m := range mine {
						proxy.VerifC11ServerPlayersRemove(lobby, m.h)
						if (i+reg)%2 == 0 {
							m.h.Unregister()
							_ = netmc.CloseUnknown(m.conn) // its teardown finds nothing to remove
						} else {
							_ = netmc.CloseUnknown(m.conn) // Close -> Disconnected -> teardown -> unregisterConnection
							m.h.Unregister()               // in case DisconnectAll's teardown is still under way elsewhere: make removal certain before the barrier
						}
						runtime.Gosched()
					}
					bar.wait() // everything of epoch e is out
				}
			}(reg)
		}
		churn.Add(1)
		go func() {
			defer churn.Done()
			for e := 0; e < cfg.Epochs; e++ {
				var infos []proxy.ServerInfo
				for i := 0; i < cfg.Servers; i++ {
					info := proxy.NewServerInfo(fmt.Sprintf("e%ds%d", e, i), netutil.NewAddr(fmt.Sprintf("127.0.0.1:%d", 30000+i), "tcp"))
					if _, err := px.Register(info); err == nil {
						srvRegistered.Add(1)
						infos = append(infos, info)
					}
					runtime.Gosched()
				}
				bar.wait()
				for y := 0; y < cfg.Hold; y++ {
					runtime.Gosched()
				}
				for _, info := range infos {
					px.Unregister(info)
					runtime.Gosched()
				}
				bar.wait()
			}
		}()

		// ---- listers -------------------------------------------------------------------
		var daInFlight atomic.Int64
		oneTag := func(api string, names []string) {
			if len(names) > 0 {
				nonEmpty.Add(1)
			}
			for {
				m := maxLen.Load()
				if int64(len(names)) <= m || maxLen.CompareAndSwap(m, int64(len(names))) {
					break
				}
			}
			tag, seen := -2, map[string]bool{}
			for _, n := range names {
				if seen[n] {
					report(api+"-lists-an-entry-twice", api+" returned the same entry twice", map[string]any{"list": names, "run": cfg})
					return
				}
				seen[n] = true
				tg := tagOf(n)
				if tg < 0 {
					continue // permanent, untagged item (lobby)
				}
				if tag == -2 {
					tag = tg
				} else if tag != tg {
					mixed.Add(1)
					report(api+"-list-mixes-epochs", api+" returned entries that were never registered at the same moment (two epoch tags in one list)", map[string]any{"list": names, "run": cfg})
					return
				}
			}
		}
		rangeNames := func(api string, pl proxy.Players) []string {
			var names []string
			pl.Range(func(p proxy.Player) bool {
				if isNil(p) {
					report(api+"-yields-nil", api+" yielded nil", map[string]any{"run": cfg})
					return true
				}
				names = append(names, p.Username())
				return true
			})
			return names
		}
		// one call of a lister; reports whether the goroutine should yield afterwards
		oneCall := func(kind, li, it int) {
			switch kind {
			case lPlayers:
				pls := px.Players()
				names := make([]string, 0, len(pls))
				for _, p := range pls {
					if isNil(p) {
						report("Players-lists-nil", "Players() returned a nil entry", map[string]any{"run": cfg})
						continue
					}
					names = append(names, p.Username())
				}
				oneTag("Players", names)
			case lPlayerCount:
				if n := px.PlayerCount(); n < 0 || n > maxPlayers {
					report("PlayerCount-exceeds-any-moment", fmt.Sprintf("PlayerCount()=%d but at most %d players are ever registered at once", n, maxPlayers), map[string]any{"run": cfg})
				}
			case lServerRange:
				oneTag("server.Players().Range", rangeNames("server-Range", lobby.Players()))
			case lServerLen:
				if n := lobby.Players().Len(); n < 0 || n > maxPlayers {
					report("server-Len-exceeds-any-moment", fmt.Sprintf("Len()=%d but at most %d players are ever in the list at once", n, maxPlayers), map[string]any{"run": cfg})
				}
			case lServers:
				srvs := px.Servers()
				names := make([]string, 0, len(srvs))
				for _, s := range srvs {
					names = append(names, s.ServerInfo().Name())
				}
				oneTag("Servers", names)
			case lDisconnectAll:
				if it%8 != 0 { // DisconnectAll is rare in real life too; in between count players
					_ = px.PlayerCount()
					runtime.Gosched()
					return
				}
				daCalls.Add(1)
				daPlayers.Add(int64(px.PlayerCount()))
				daInFlight.Add(1)
				px.DisconnectAll(&component.Text{Content: "bye"})
				daInFlight.Add(-1)
			case lToSlicePlayer:
				pls := proxy.PlayersToSlice[proxy.Player](lobby.Players())
				names := make([]string, 0, len(pls))
				for _, p := range pls {
					if isNil(p) {
						report("PlayersToSlice-lists-nil", "PlayersToSlice returned a nil entry", map[string]any{"run": cfg})
						continue
					}
					names = append(names, p.Username())
				}
				if len(names) > maxPlayers {
					report("PlayersToSlice-exceeds-any-moment", fmt.Sprintf("PlayersToSlice returned %d players but at most %d are ever in the list at once", len(names), maxPlayers), map[string]any{"run": cfg})
				}
				oneTag("PlayersToSlice", names)
			case lToSliceSink:
				sinks := proxy.PlayersToSlice[proxy.MessageSink](lobby.Players())
				names := make([]string, 0, len(sinks))
				for _, sk := range sinks {
					p, ok := sk.(proxy.Player)
					if !ok || isNil(p) {
						report("PlayersToSlice-lists-nil", "PlayersToSlice[MessageSink] returned an entry that is no player", map[string]any{"run": cfg})
						continue
					}
					names = append(names, p.Username())
				}
				oneTag("PlayersToSlice", names)
			case lToSliceBungee:
				pls := proxy.PlayersToSlice[bungeecord.Player](lobby.Players())
				names := make([]string, 0, len(pls))
				for _, p := range pls {
					if p == nil || reflect.ValueOf(p).IsNil() {
						report("PlayersToSlice-lists-nil", "PlayersToSlice[bungeecord.Player] returned a nil entry", map[string]any{"run": cfg})
						continue
					}
					names = append(names, p.Username())
				}
				oneTag("PlayersToSlice", names)
			case lPlayerLookup:
				// lookups of names of any epoch while the maps are being written
				name := fmt.Sprintf("e%dr%dp%d", (it/7)%cfg.Epochs, (it+li)%cfg.Registrars, it%cfg.PerEpoch)
				if p := px.PlayerByName(strings.ToUpper(name)); p != nil && (isNil(p) || !strings.EqualFold(p.Username(), name)) {
					report("PlayerByName-returns-another-player", "PlayerByName returned a player with another name (or a typed nil)", map[string]any{"asked": name, "run": cfg})
				}
				id := uuid.OfflinePlayerUUID(name)
				if p := px.Player(id); p != nil && (isNil(p) || p.ID() != id) {
					report("Player-returns-another-player", "Player(id) returned a player with another id (or a typed nil)", map[string]any{"asked": name, "run": cfg})
				}
			case lServerLookup:
				name := fmt.Sprintf("e%ds%d", (it/5)%cfg.Epochs, it%cfg.Servers)
				if it%9 == 0 {
					name = "LOBBY"
				}
				if s := px.Server(name); s != nil {
					if !strings.EqualFold(s.ServerInfo().Name(), name) {
						report("Server-returns-another-server", "Server(name) returned a server with another name", map[string]any{"asked": name, "got": s.ServerInfo().Name(), "run": cfg})
					}
					if n := s.Players().Len(); n < 0 || n > maxPlayers {
						report("server-Len-exceeds-any-moment", fmt.Sprintf("Len()=%d but at most %d players are ever in the list at once", n, maxPlayers), map[string]any{"run": cfg})
					}
				}
			case lGlist:
				// what "/glist all" and "/server" do: all servers, then size and content of each list
				srvs := px.Servers()
				names := make([]string, 0, len(srvs))
				for _, s := range srvs {
					names = append(names, s.ServerInfo().Name())
				}
				oneTag("Servers", names)
				for _, s := range srvs {
					pl := s.Players()
					if pl.Len() == 0 {
						continue
					}
					oneTag("server.Players().Range", rangeNames("server-Range", pl))
					if n := pl.Len(); n < 0 || n > maxPlayers {
						report("server-Len-exceeds-any-moment", fmt.Sprintf("Len()=%d but at most %d players are ever in the list at once", n, maxPlayers), map[string]any{"run": cfg})
					}
				}
				if n := px.PlayerCount(); n < 0 || n > maxPlayers {
					report("PlayerCount-exceeds-any-moment", fmt.Sprintf("PlayerCount()=%d but at most %d players are ever registered at once", n, maxPlayers), map[string]any{"run": cfg})
				}
			}
		}
		// a panic inside a listing call is a violation of "without crashing": it is recovered in
		// the lister's goroutine so that the run goes on (a fatal runtime error, which no recover
		// sees, still ends the process and is classified by the driver)
		guarded := func(kind, li, it int) {
			defer func() {
				if p := recover(); p != nil {
					listerPanics.Add(1)
					report("lister-panicked:"+listerName[kind]+":"+panicClass(p),
						fmt.Sprintf("%s panicked in the calling goroutine while players joined and left: %v", listerName[kind], p),
						map[string]any{"listing_function": listerName[kind], "panic": fmt.Sprint(p), "stack": lib.Trunc(string(debug.Stack()), 3000), "run": cfg})
				}
			}()
			oneCall(kind, li, it)
		}
		for li, kind := range cfg.Listers {
			list.Add(1)
			go func(li, kind int) {
				defer list.Done()
				for it := 0; !stop.Load(); it++ {
					calls[kind].Add(1)
					guarded(kind, li, it)
					if it%4 == 0 {
						runtime.Gosched()
					}
				}
			}(li, kind)
		}

		// ---- wait ------------------------------------------------------------------------
		okChurn, _ := lib.Returns(60*time.Second, churn.Wait)
		stop.Store(true)
		okList, _ := lib.Returns(5*time.Second, list.Wait)
		r.Eval(1)
		r.Distinct(fmt.Sprintf("%+v", cfg))
		if !okChurn {
			r.Inconclusive(fmt.Sprintf("run %d: churners did not finish within the watchdog", run))
		}
		if !okList {
			// all churn is over and the registry is empty. A DisconnectAll caller that is still in
			// WaitGroup.Wait while none of the goroutines it spawned exists can never return.
			dump := lib.Goroutines()
			waiting, spawned := 0, 0
			var blk string
			for _, b := range lib.GoroutineBlocks(dump) {
				if strings.Contains(b, "proxy.(*Proxy).DisconnectAll.") { // .func1 / .gowrap1: spawned disconnectors
					spawned++
				} else if strings.Contains(b, "proxy.(*Proxy).DisconnectAll(") && strings.Contains(b, "sync.(*WaitGroup).Wait") {
					waiting++
					blk = b
				}
			}
			if waiting > 0 && spawned == 0 && okChurn {
				report("DisconnectAll-never-returns:waits-for-more-players-than-it-disconnects",
					"DisconnectAll is parked in WaitGroup.Wait although every goroutine it started has finished and all churn is over: it counted the player map at one moment and iterated it at another",
					map[string]any{"run": cfg, "stack": lib.Trunc(blk, 3000), "callers_waiting": waiting})
			} else {
				r.Inconclusive(fmt.Sprintf("run %d: listers did not stop within the watchdog (DisconnectAll waiting=%d spawned-alive=%d)", run, waiting, spawned))
			}
		}
		vmu.Lock()
		for _, v := range viols {
			r.Violation(v.sig, v.what, v.w)
		}
		vmu.Unlock()
		if r.WantSample() {
			r.Sample(map[string]any{"run": cfg, "players_registered_so_far": registered.Load(), "lists_nonempty_so_far": nonEmpty.Load()})
		}
		runtime.GOMAXPROCS(prev)
	}
	for k := 0; k < nListerKinds; k++ {
		r.Count("calls_"+listerName[k], int(calls[k].Load()))
	}
	r.Count("lists_nonempty_observed", int(nonEmpty.Load()))
	r.Count("lists_mixing_epochs", int(mixed.Load()))
	r.Set("longest_list_observed", maxLen.Load())
	r.Count("players_registered", int(registered.Load()))
	r.Count("servers_registered", int(srvRegistered.Load()))
	r.Count("server_list_leaves_and_rejoins_within_an_epoch", int(rejoins.Load()))
	r.Count("lister_panics_recovered", int(listerPanics.Load()))
	// ---- DisconnectAll against registration churn (focused) --------------------------------
	// In the runs above DisconnectAll is one lister among many and is called rarely. Here one or
	// two callers call it back to back while two goroutines register and unregister players with
	// already-closed connections as fast as they can, so that joins and leaves land inside a
	// running DisconnectAll. It must neither end the process nor stay parked for ever.
	drng := r.Rng("disconnect-all-churn")
	daRounds := r.N(24, 600)
	var focusedCalls atomic.Int64
	for round := 0; round < daRounds; round++ {
		cfgDA := config.DefaultConfig
		cfgDA.OnlineMode = false
		pxd, err := proxy.New(proxy.Options{Config: &cfgDA, EventMgr: event.New(), Authenticator: sharedAuth()})
		if err != nil {
			r.Inconclusive("proxy.New failed: " + err.Error())
			break
		}
		prev := runtime.GOMAXPROCS([]int{2, 4, 16}[drng.Intn(3)])
		var stop atomic.Bool
		var churnWG, callWG sync.WaitGroup
		for g := 0; g < 2; g++ {
			churnWG.Add(1)
			go func(g int) {
				defer churnWG.Done()
				for i := 0; !stop.Load(); i++ {
					name := fmt.Sprintf("d%dg%dp%d", round, g, i%40)
					a, _ := lib.Pipe()
					conn, _ := netmc.NewMinecraftConn(context.Background(), a, gproto.ServerBound, 0, 0, -1, nil)
					conn.SetProtocol(version.Minecraft_1_20.Protocol)
					conn.SetState(state.Login)
					h := proxy.VerifC11NewPlayer(pxd, conn, &profile.GameProfile{ID: uuid.OfflinePlayerUUID(name), Name: name},
						netutil.NewAddr("play.example.com:25565", "tcp"), false, true)
					_ = conn.Close()
					if h.Register() {
						runtime.Gosched()
						h.Unregister()
					}
				}
			}(g)
		}
		callers := 1 + drng.Intn(2)
		perCaller := 60 + drng.Intn(120)
		for cidx := 0; cidx < callers; cidx++ {
			callWG.Add(1)
			go func() {
				defer callWG.Done()
				for i := 0; i < perCaller; i++ {
					focusedCalls.Add(1)
					pxd.DisconnectAll(&component.Text{Content: "bye"})
				}
			}()
		}
		okCalls, _ := lib.Returns(30*time.Second, callWG.Wait)
		stop.Store(true)
		okChurn, _ := lib.Returns(30*time.Second, churnWG.Wait)
		runtime.GOMAXPROCS(prev)
		r.Eval(1)
		r.Distinct(fmt.Sprintf("disconnect-all-churn %d %d %d", round, callers, perCaller))
		if !okCalls {
			// churn has stopped now; give stragglers a moment, then look at who is still parked
			time.Sleep(200 * time.Millisecond)
			waiting, spawned := 0, 0
			var blk string
			for _, b := range lib.GoroutineBlocks(lib.Goroutines()) {
				if strings.Contains(b, "proxy.(*Proxy).DisconnectAll.") {
					spawned++
				} else if strings.Contains(b, "proxy.(*Proxy).DisconnectAll(") && strings.Contains(b, "sync.(*WaitGroup).Wait") {
					waiting++
					blk = b
				}
			}
			if waiting > 0 && spawned == 0 && okChurn {
				r.Violation("DisconnectAll-never-returns:waits-for-more-players-than-it-disconnects",
					"DisconnectAll is parked in WaitGroup.Wait although every goroutine it started has finished and all churn is over: it counted the player map at one moment and iterated it at another",
					map[string]any{"round": round, "stack": lib.Trunc(blk, 3000), "callers_waiting": waiting})
			} else {
				r.Inconclusive(fmt.Sprintf("disconnect-all-churn round %d: callers did not return within the watchdog (waiting=%d spawned-alive=%d)", round, waiting, spawned))
			}
			break
		}
	}
	r.Count("DisconnectAll_calls_against_focused_registration_churn", int(focusedCalls.Load()))
	r.Count("DisconnectAll_calls", int(daCalls.Load()))
	r.Count("DisconnectAll_players_online_at_call", int(daPlayers.Load()))
}
