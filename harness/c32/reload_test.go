// C32 part C: route reloads through the real Proxy.ApplyLiveConfig between status pings.
//
// One real proxy (Lite mode, never started; connections are handed to Proxy.HandleConn like the
// listener does) in front of loopback status backends that mint a unique id per status request
// and echo what they can see of the request in the MOTD ("ID-<n> vh=<virtual host> pp=<PROXY
// header seen> b=<port>"). Every case is
//
//	ApplyLiveConfig(base)  ->  pings (cache warm)  ->  ApplyLiveConfig(reloaded)  ->  pings
//
// where `reloaded` differs from `base` in exactly ONE attribute of a Lite route, in TWO, in a
// whole route (added / removed / moved), or in nothing. The single attributes are not a
// hand-written list: they are enumerated by reflection over the type config.Route (every
// exported field, recursively through pointers, slices and structs), so that a field added to
// Route later is varied automatically; a field whose type the generator cannot vary makes the
// monitor panic (run ends without evidence = loud), it is never skipped silently.
//
// Oracle (the statement's reload clause): a status request that STARTS after ApplyLiveConfig
// RETURNED (for a reload that changed the routes) is never answered with a status whose request
// the backend had read BEFORE that return. Unique ids make this decidable without timing. For a
// reload that changes nothing the cached status may be served; that is only counted (it also
// shows that the cache was warm, i.e. that the oracle had something to catch).
package c32

import (
	"bufio"
	"encoding/base64"
	"encoding/json"
	"fmt"
	"math/rand"
	"net"
	"reflect"
	"regexp"
	"sort"
	"strconv"
	"strings"
	"sync"
	"sync/atomic"
	"time"

	proxyproto "github.com/pires/go-proxyproto"
	"go.minekube.com/common/minecraft/component"
	jconfig "go.minekube.com/gate/pkg/edition/java/config"
	"go.minekube.com/gate/pkg/edition/java/forge/modinfo"
	"go.minekube.com/gate/pkg/edition/java/lite/config"
	"go.minekube.com/gate/pkg/edition/java/ping"
	"go.minekube.com/gate/pkg/edition/java/proxy/verifh/e2e"
	"go.minekube.com/gate/pkg/edition/java/proxy/verifh/e2e/litefwd"
	"go.minekube.com/gate/pkg/edition/java/proxy/verifh/lib"
	"go.minekube.com/gate/pkg/util/configutil"
	"go.minekube.com/gate/pkg/util/favicon"
	"go.minekube.com/gate/pkg/util/uuid"
)

// ---- echoing status backends ---------------------------------------------------------------------

type fetchInfo struct {
	Stamp int64 // value of the shared counter when the backend had read the status request
	VHost string
	PP    bool
	Port  int
}

type echoBackends struct {
	stamp   atomic.Int64
	nextID  atomic.Int64
	mu      sync.Mutex
	fetches map[int]fetchInfo
	bs      []*litefwd.Backend
}

func readFrame(br *bufio.Reader) ([]byte, error) {
	var l uint32
	for i := 0; ; i++ {
		b, err := br.ReadByte()
		if err != nil {
			return nil, err
		}
		l |= uint32(b&0x7f) << (7 * uint(i))
		if b&0x80 == 0 {
			break
		}
		if i >= 4 {
			return nil, fmt.Errorf("frame length varint too long")
		}
	}
	if l > 1<<16 {
		return nil, fmt.Errorf("frame too long")
	}
	p := make([]byte, l)
	for n := 0; n < len(p); {
		k, err := br.Read(p[n:])
		n += k
		if err != nil {
			return nil, err
		}
	}
	return p, nil
}

func newEchoBackends(n int) (*echoBackends, error) {
	e := &echoBackends{fetches: map[int]fetchInfo{}}
	for i := 0; i < n; i++ {
		var b *litefwd.Backend
		var err error
		b, err = litefwd.Listen(0, func(c net.Conn, idx int) {
			defer c.Close()
			_ = c.SetDeadline(time.Now().Add(20 * time.Second))
			br := bufio.NewReader(c)
			pp := false
			if _, err := proxyproto.Read(br); err == nil {
				pp = true
			} else if err != proxyproto.ErrNoProxyProtocol {
				return
			}
			hsFrame, err := readFrame(br)
			if err != nil {
				return
			}
			hs, _, _, err := litefwd.ParseHandshakeFrame(litefwd.FramePayload(hsFrame))
			if err != nil {
				return
			}
			if req, err := readFrame(br); err != nil || len(req) != 1 || req[0] != 0 {
				return
			}
			st := e.stamp.Add(1)
			id := int(e.nextID.Add(1))
			port := c.LocalAddr().(*net.TCPAddr).Port
			e.mu.Lock()
			e.fetches[id] = fetchInfo{Stamp: st, VHost: hs.Address, PP: pp, Port: port}
			e.mu.Unlock()
			text, _ := json.Marshal(fmt.Sprintf("ID-%d vh=%s pp=%d b=%d", id, hs.Address, map[bool]int{false: 0, true: 1}[pp], port))
			js := `{"version":{"name":"ref","protocol":765},"players":{"max":10,"online":1},"description":{"text":` + string(text) + `}}`
			p := litefwd.AppendVarInt(nil, 0)
			p = litefwd.AppendVarInt(p, int32(len(js)))
			p = append(p, js...)
			_, _ = c.Write(litefwd.FramePayload(p))
			buf := make([]byte, 256)
			for {
				if _, err := c.Read(buf); err != nil {
					return
				}
			}
		})
		if err != nil {
			e.close()
			return nil, err
		}
		e.bs = append(e.bs, b)
	}
	return e, nil
}

func (e *echoBackends) close() {
	for _, b := range e.bs {
		b.Close()
	}
}

func (e *echoBackends) info(id int) (fetchInfo, bool) {
	e.mu.Lock()
	defer e.mu.Unlock()
	f, ok := e.fetches[id]
	return f, ok
}

// addrs returns the pool of backend addresses (two spellings per listener are two different
// cache keys and two different virtual hosts under modifyVirtualHost).
func (e *echoBackends) addrs() []string {
	var out []string
	for i, b := range e.bs {
		host := "127.0.0.1"
		if i%2 == 1 {
			host = "localhost"
		}
		out = append(out, fmt.Sprintf("%s:%d", host, b.Port))
	}
	return out
}

// ---- status client ---------------------------------------------------------------------------------

type pong struct {
	Answered bool
	Raw      string
	ID       int
	VHost    string
	PP       bool
	Port     int
	Fallback bool
	TimedOut bool
}

var echoRe = regexp.MustCompile(`ID-(\d+) vh=(.*) pp=([01]) b=(\d+)`)

func statusPing(h *e2e.Harness, host string, protocol int32) pong {
	cl, px := lib.Pipe()
	done := make(chan struct{})
	go func() { defer close(done); h.P.HandleConn(px) }()
	defer func() {
		_ = cl.Close()
		lib.Returns(20*time.Second, func() { <-done })
	}()
	_, _ = cl.Write(litefwd.Handshake{Protocol: protocol, Address: host, Port: 25565, Next: 1}.Frame())
	_, _ = cl.Write(litefwd.FramePayload([]byte{0x00}))
	var res pong
	type rawAnswer struct {
		answered bool
		raw      string
	}
	ch := make(chan rawAnswer, 1)
	ok, _ := lib.Returns(20*time.Second, func() {
		var a rawAnswer
		defer func() { ch <- a }()
		br := bufio.NewReader(cl)
		p, err := readFrame(br)
		if err != nil || len(p) < 2 || p[0] != 0 {
			return
		}
		l, k := litefwd.ReadVarInt(p[1:])
		if k <= 0 || int(l) > len(p)-1-k {
			return
		}
		a.answered, a.raw = true, string(p[1+k:1+k+int(l)])
	})
	if ok {
		a := <-ch
		res.Answered, res.Raw = a.answered, a.raw
	}
	if !ok {
		res.TimedOut = true
		return res
	}
	if !res.Answered {
		return res
	}
	var v struct {
		Description any `json:"description"`
	}
	if json.Unmarshal([]byte(res.Raw), &v) == nil {
		var text string
		switch d := v.Description.(type) {
		case string:
			text = d
		case map[string]any:
			text, _ = d["text"].(string)
		}
		if m := echoRe.FindStringSubmatch(text); m != nil {
			res.ID, _ = strconv.Atoi(m[1])
			res.VHost = m[2]
			res.PP = m[3] == "1"
			res.Port, _ = strconv.Atoi(m[4])
		} else if strings.Contains(res.Raw, "FALLBACK") {
			res.Fallback = true
		}
	}
	return res
}

// ---- reflective enumeration of a route's attributes ------------------------------------------------

type pstep struct {
	kind  byte // 'f' struct field, 'p' pointer dereference, 'e' slice element (the last one)
	field int
}

type attr struct {
	Name string
	path []pstep
	op   string // leaf | nil->set | set->nil | add | remove | reorder
	// route-level variations (not on the Route type): "routes(add-before)" ...
	routeOp string
}

var (
	tComponent = reflect.TypeOf(configutil.Component{})
	tFavicon   = reflect.TypeOf(favicon.Favicon(""))
	tDuration  = reflect.TypeOf(configutil.Duration(0))
	tStrategy  = reflect.TypeOf(config.Strategy(""))
	tUUID      = reflect.TypeOf(uuid.UUID{})
)

func atomic_(t reflect.Type) bool {
	return t == tComponent || t == tFavicon || t == tDuration || t == tStrategy || t == tUUID
}

func jsonName(f reflect.StructField) string {
	n := strings.Split(f.Tag.Get("json"), ",")[0]
	if n == "" || n == "-" {
		return f.Name
	}
	return n
}

func enumAttrs(t reflect.Type, name string, path []pstep, out *[]attr) {
	cp := func(extra ...pstep) []pstep { return append(append([]pstep(nil), path...), extra...) }
	if atomic_(t) {
		*out = append(*out, attr{Name: name, path: cp(), op: "leaf"})
		return
	}
	switch t.Kind() {
	case reflect.Bool, reflect.String, reflect.Int, reflect.Int8, reflect.Int16, reflect.Int32, reflect.Int64,
		reflect.Uint, reflect.Uint8, reflect.Uint16, reflect.Uint32, reflect.Uint64, reflect.Float32, reflect.Float64:
		*out = append(*out, attr{Name: name, path: cp(), op: "leaf"})
	case reflect.Ptr:
		*out = append(*out, attr{Name: name + "(nil->set)", path: cp(), op: "nil->set"}, attr{Name: name + "(set->nil)", path: cp(), op: "set->nil"})
		enumAttrs(t.Elem(), name, cp(pstep{kind: 'p'}), out)
	case reflect.Slice:
		*out = append(*out, attr{Name: name + "(add)", path: cp(), op: "add"}, attr{Name: name + "(remove)", path: cp(), op: "remove"}, attr{Name: name + "(reorder)", path: cp(), op: "reorder"})
		en := name + "[]"
		if t.Elem().Kind() == reflect.String {
			en = name + "(replace)"
		}
		enumAttrs(t.Elem(), en, cp(pstep{kind: 'e'}), out)
	case reflect.Struct:
		n := 0
		for i := 0; i < t.NumField(); i++ {
			f := t.Field(i)
			if !f.IsExported() {
				continue
			}
			n++
			fn := jsonName(f)
			if name != "" {
				fn = name + "." + fn
			}
			enumAttrs(f.Type, fn, cp(pstep{kind: 'f', field: i}), out)
		}
		if n == 0 {
			panic(fmt.Sprintf("C32 reload generator: %s is a struct without exported fields (%s): it cannot be varied — extend reload_test.go", name, t))
		}
	default:
		panic(fmt.Sprintf("C32 reload generator: config.Route attribute %q has type %s (kind %s) which the generator cannot vary — extend reload_test.go", name, t, t.Kind()))
	}
}

// env is what value generation needs: domains for the strings that must be valid.
type env struct {
	rng      *rand.Rand
	hostPool []string // further host patterns (the pinged host itself is always Host[0])
	backends []string // backend address pool
	uniq     *int
}

func (e *env) fresh() string { *e.uniq++; return strconv.Itoa(*e.uniq) }

func isHostName(name string) bool {
	return name == "host" || strings.HasPrefix(name, "host(") || strings.HasPrefix(name, "host[")
}
func isBackendName(name string) bool {
	return name == "backend" || strings.HasPrefix(name, "backend(") || strings.HasPrefix(name, "backend[")
}

var (
	favicons   = []string{"data:image/png;base64," + base64.StdEncoding.EncodeToString([]byte("\x89PNG\r\n\x1a\nA")), "data:image/png;base64," + base64.StdEncoding.EncodeToString([]byte("\x89PNG\r\n\x1a\nB")), ""}
	durations  = []configutil.Duration{0, configutil.Duration(20 * time.Second), configutil.Duration(45 * time.Second), configutil.Duration(2 * time.Minute), configutil.Duration(-1)}
	strategies = []config.Strategy{"", config.StrategySequential, config.StrategyRandom, config.StrategyRoundRobin, config.StrategyLeastConnections, config.StrategyLowestLatency}
)

// newString picks a string for the attribute `name` that is not in `not`.
func (e *env) newString(name string, not []string) string {
	has := func(s string) bool {
		for _, x := range not {
			if x == s {
				return true
			}
		}
		return false
	}
	switch {
	case isHostName(name):
		return "alt" + e.fresh() + ".reload.test"
	case isBackendName(name):
		perm := e.rng.Perm(len(e.backends))
		for _, i := range perm {
			if !has(e.backends[i]) {
				return e.backends[i]
			}
		}
		panic("C32 reload generator: backend pool exhausted")
	default:
		return "v" + e.fresh()
	}
}

// freshValue builds a valid value of type t.
func (e *env) freshValue(t reflect.Type, name string, siblings []string) reflect.Value {
	v := reflect.New(t).Elem()
	switch {
	case t == tComponent:
		v.Set(reflect.ValueOf(configutil.Component{Value: &component.Text{Content: "FALLBACK motd " + e.fresh()}}))
	case t == tFavicon:
		v.SetString(favicons[e.rng.Intn(2)])
	case t == tDuration:
		v.SetInt(int64(durations[1+e.rng.Intn(3)]))
	case t == tStrategy:
		v.SetString(string(strategies[e.rng.Intn(len(strategies))]))
	case t == tUUID:
		var u uuid.UUID
		e.rng.Read(u[:])
		v.Set(reflect.ValueOf(u))
	default:
		switch t.Kind() {
		case reflect.Bool:
			v.SetBool(e.rng.Intn(2) == 0)
		case reflect.Int, reflect.Int8, reflect.Int16, reflect.Int32, reflect.Int64:
			v.SetInt(int64(1 + e.rng.Intn(100)))
		case reflect.Uint, reflect.Uint8, reflect.Uint16, reflect.Uint32, reflect.Uint64:
			v.SetUint(uint64(1 + e.rng.Intn(100)))
		case reflect.Float32, reflect.Float64:
			v.SetFloat(float64(1 + e.rng.Intn(100)))
		case reflect.String:
			v.SetString(e.newString(name, siblings))
		case reflect.Ptr:
			p := reflect.New(t.Elem())
			p.Elem().Set(e.freshValue(t.Elem(), name, nil))
			v.Set(p)
		case reflect.Slice:
			var sib []string
			for i := 0; i < 2; i++ {
				el := e.freshValue(t.Elem(), name, sib)
				if el.Kind() == reflect.String {
					sib = append(sib, el.String())
				}
				v.Set(reflect.Append(v, el))
			}
		case reflect.Struct:
			for i := 0; i < t.NumField(); i++ {
				if f := t.Field(i); f.IsExported() {
					fn := jsonName(f)
					if name != "" {
						fn = name + "." + fn
					}
					v.Field(i).Set(e.freshValue(f.Type, fn, nil))
				}
			}
		default:
			panic(fmt.Sprintf("C32 reload generator: cannot build a value of type %s for %q — extend reload_test.go", t, name))
		}
	}
	return v
}

// varyLeaf changes v in place to a different valid value.
func (e *env) varyLeaf(v reflect.Value, name string, siblings []string) {
	t := v.Type()
	switch {
	case t == tComponent:
		v.Set(reflect.ValueOf(configutil.Component{Value: &component.Text{Content: "FALLBACK motd " + e.fresh()}}))
	case t == tFavicon:
		for _, f := range favicons {
			if f != v.String() {
				v.SetString(f)
				return
			}
		}
	case t == tDuration:
		for {
			d := durations[e.rng.Intn(len(durations))]
			if name != "cachePingTTL" && d < 0 {
				continue
			}
			if int64(d) != v.Int() {
				v.SetInt(int64(d))
				return
			}
		}
	case t == tStrategy:
		for {
			s := strategies[e.rng.Intn(len(strategies))]
			if string(s) != v.String() {
				v.SetString(string(s))
				return
			}
		}
	case t == tUUID:
		u := v.Interface().(uuid.UUID)
		u[e.rng.Intn(16)] ^= byte(1 + e.rng.Intn(255))
		v.Set(reflect.ValueOf(u))
	default:
		switch t.Kind() {
		case reflect.Bool:
			v.SetBool(!v.Bool())
		case reflect.Int, reflect.Int8, reflect.Int16, reflect.Int32, reflect.Int64:
			v.SetInt(v.Int() + int64(1+e.rng.Intn(9)))
		case reflect.Uint, reflect.Uint8, reflect.Uint16, reflect.Uint32, reflect.Uint64:
			v.SetUint(v.Uint() + uint64(1+e.rng.Intn(9)))
		case reflect.Float32, reflect.Float64:
			v.SetFloat(v.Float() + 1)
		case reflect.String:
			v.SetString(e.newString(name, append(siblings, v.String())))
		default:
			panic(fmt.Sprintf("C32 reload generator: cannot vary a leaf of type %s (%q) — extend reload_test.go", t, name))
		}
	}
}

func stringsOf(v reflect.Value) []string {
	var out []string
	if v.Kind() == reflect.Slice && v.Type().Elem().Kind() == reflect.String {
		for i := 0; i < v.Len(); i++ {
			out = append(out, v.Index(i).String())
		}
	}
	return out
}

// navigate walks path from the (addressable) route value. With ensure it creates what is
// missing on the way (nil pointers, empty slices) so that the node exists.
func (e *env) navigate(root reflect.Value, a attr, ensure bool) (node reflect.Value, parentSlice reflect.Value, ok bool) {
	v := root
	name := ""
	for _, s := range a.path {
		switch s.kind {
		case 'f':
			fn := jsonName(v.Type().Field(s.field))
			if name != "" {
				fn = name + "." + fn
			}
			name = fn
			v = v.Field(s.field)
		case 'p':
			if v.IsNil() {
				if !ensure {
					return v, parentSlice, false
				}
				v.Set(e.freshValue(v.Type(), name, nil))
			}
			v = v.Elem()
		case 'e':
			if v.Len() == 0 {
				if !ensure {
					return v, parentSlice, false
				}
				v.Set(e.freshValue(v.Type(), name, nil))
			}
			parentSlice = v
			v = v.Index(v.Len() - 1)
		}
	}
	return v, parentSlice, true
}

func baseName(a attr) string {
	if i := strings.IndexAny(a.Name, "(["); i >= 0 {
		return a.Name[:i]
	}
	return a.Name
}

// prepare makes the attribute's node exist in the route (applied identically to the base and
// to the reloaded configuration), mutate then changes it (reloaded configuration only).
func (e *env) prepare(rt *config.Route, a attr) {
	root := reflect.ValueOf(rt).Elem()
	node, _, _ := e.navigate(root, a, true)
	switch a.op {
	case "nil->set":
		node.Set(reflect.Zero(node.Type()))
	case "set->nil":
		if node.IsNil() {
			node.Set(e.freshValue(node.Type(), baseName(a), nil))
		}
	case "leaf":
		// replacing a host pattern must not unroute the pinged host (Host[0]): have a second one
		if n := len(a.path); n > 0 && a.path[n-1].kind == 'e' && isHostName(a.Name) {
			sl, _, _ := e.navigate(root, attr{path: a.path[:n-1]}, true)
			for sl.Len() < 2 {
				sl.Set(reflect.Append(sl, e.freshValue(sl.Type().Elem(), baseName(a), stringsOf(sl))))
			}
		}
	case "remove", "reorder":
		for node.Len() < 2 {
			node.Set(reflect.Append(node, e.freshValue(node.Type().Elem(), baseName(a), stringsOf(node))))
		}
	}
}

func (e *env) mutate(rt *config.Route, a attr) {
	root := reflect.ValueOf(rt).Elem()
	node, parent, ok := e.navigate(root, a, false)
	if !ok {
		panic("C32 reload generator: attribute " + a.Name + " not reachable after prepare")
	}
	switch a.op {
	case "leaf":
		e.varyLeaf(node, a.Name, stringsOf(parent))
	case "nil->set":
		node.Set(e.freshValue(node.Type(), baseName(a), nil))
	case "set->nil":
		node.Set(reflect.Zero(node.Type()))
	case "add":
		// a fresh slice so that base and reloaded never share a backing array
		n := reflect.MakeSlice(node.Type(), 0, node.Len()+1)
		n = reflect.AppendSlice(n, node)
		n = reflect.Append(n, e.freshValue(node.Type().Elem(), baseName(a), stringsOf(node)))
		node.Set(n)
	case "remove":
		// the last element goes (for hosts the pinged host is the first one and stays); for
		// backends a random one
		i := node.Len() - 1
		if isBackendName(a.Name) {
			i = e.rng.Intn(node.Len())
		}
		n := reflect.MakeSlice(node.Type(), 0, node.Len())
		for j := 0; j < node.Len(); j++ {
			if j != i {
				n = reflect.Append(n, node.Index(j))
			}
		}
		node.Set(n)
	case "reorder":
		n := reflect.MakeSlice(node.Type(), 0, node.Len())
		n = reflect.AppendSlice(n, node)
		first, last := n.Index(0).Interface(), n.Index(n.Len()-1).Interface()
		if reflect.DeepEqual(first, last) {
			// equal elements: make the last one different first (both configurations would be
			// equal otherwise) — cannot happen for pool-drawn strings
			panic("C32 reload generator: reorder of equal elements in " + a.Name)
		}
		n.Index(0).Set(reflect.ValueOf(last))
		n.Index(n.Len() - 1).Set(reflect.ValueOf(first))
		node.Set(n)
	}
}

// ---- cases --------------------------------------------------------------------------------------

type reloadCase struct {
	Kind     string   // single | pair | route | identical
	Attrs    []string // what the reload changes
	Protocol int32
	Host     string
	Seed     int64
	attrs    []attr
}

// buildRoutes builds the base configuration of a case: the target route (serves Host) between
// 0-2 other routes. Deterministic in seed.
func buildRoutes(seed int64, host string, pool []string, uniq *int) (routes []config.Route, target int, e *env) {
	rng := rand.New(rand.NewSource(seed))
	e = &env{rng: rng, backends: pool, uniq: uniq}
	other := func() config.Route {
		return config.Route{Host: []string{"other" + e.fresh() + ".reload.test"}, Backend: []string{pool[rng.Intn(len(pool))]}}
	}
	nb := 1 + rng.Intn(2)
	perm := rng.Perm(len(pool))
	var bs []string
	for i := 0; i < nb; i++ {
		bs = append(bs, pool[perm[i]])
	}
	t := config.Route{
		Host:              []string{host},
		Backend:           bs,
		CachePingTTL:      []configutil.Duration{0, 0, configutil.Duration(30 * time.Second), configutil.Duration(time.Minute)}[rng.Intn(4)],
		ProxyProtocol:     rng.Intn(3) == 0,
		TCPShieldRealIP:   rng.Intn(3) == 0,
		ModifyVirtualHost: rng.Intn(3) == 0,
		Strategy:          []config.Strategy{"", "", config.StrategySequential, config.StrategyRoundRobin, config.StrategyRandom, config.StrategyLeastConnections, config.StrategyLowestLatency}[rng.Intn(7)],
	}
	if rng.Intn(3) == 0 {
		t.Host = append(t.Host, "*.w"+e.fresh()+".reload.test")
	}
	if rng.Intn(2) == 0 {
		t.Fallback = &config.Status{
			MOTD:    &configutil.Component{Value: &component.Text{Content: "FALLBACK motd " + e.fresh()}},
			Version: ping.Version{Name: "fb" + e.fresh(), Protocol: 765},
			Players: &ping.Players{Online: rng.Intn(5), Max: 20 + rng.Intn(5)},
			ModInfo: modinfo.ModInfo{Type: "FML", Mods: []modinfo.Mod{{ID: "m" + e.fresh(), Version: "1"}}},
		}
	}
	before, after := rng.Intn(2), rng.Intn(2)
	for i := 0; i < before; i++ {
		routes = append(routes, other())
	}
	target = len(routes)
	routes = append(routes, t)
	for i := 0; i < after; i++ {
		routes = append(routes, other())
	}
	return
}

func routeAttrs() []attr {
	return []attr{{Name: "routes(add-before)", routeOp: "add-before"}, {Name: "routes(add-after)", routeOp: "add-after"},
		{Name: "routes(remove-other)", routeOp: "remove-other"}, {Name: "routes(remove-target)", routeOp: "remove-target"}, {Name: "routes(reorder)", routeOp: "reorder"}}
}

// configs builds (base, reloaded) route lists of a case.
func (c reloadCase) configs(pool []string, uniq *int) (base, reloaded []config.Route, targetInReloaded int) {
	build := func(mut bool) ([]config.Route, int) {
		u := *uniq // both builds draw the same fresh names
		routes, ti, e := buildRoutes(c.Seed, c.Host, pool, &u)
		prng := rand.New(rand.NewSource(c.Seed ^ 0x5eed))
		e.rng = prng
		needOther := false
		for _, a := range c.attrs {
			if a.routeOp == "remove-other" || a.routeOp == "reorder" {
				needOther = true
			}
		}
		if needOther && len(routes) == 1 {
			routes = append(routes, config.Route{Host: []string{"other" + e.fresh() + ".reload.test"}, Backend: []string{pool[prng.Intn(len(pool))]}})
		}
		for _, a := range c.attrs {
			if a.routeOp == "" {
				e.prepare(&routes[ti], a)
			}
		}
		if mut {
			for _, a := range c.attrs {
				switch a.routeOp {
				case "":
					e.mutate(&routes[ti], a)
				case "add-before":
					routes = append([]config.Route{{Host: []string{"new" + e.fresh() + ".reload.test"}, Backend: []string{pool[prng.Intn(len(pool))]}}}, routes...)
					ti++
				case "add-after":
					routes = append(routes, config.Route{Host: []string{"new" + e.fresh() + ".reload.test"}, Backend: []string{pool[prng.Intn(len(pool))]}})
				case "remove-other":
					for i := range routes {
						if i != ti {
							routes = append(routes[:i:i], routes[i+1:]...)
							if i < ti {
								ti--
							}
							break
						}
					}
				case "remove-target":
					routes = append(routes[:ti:ti], routes[ti+1:]...)
					if len(routes) == 0 {
						routes = append(routes, config.Route{Host: []string{"left" + e.fresh() + ".reload.test"}, Backend: []string{pool[prng.Intn(len(pool))]}})
					}
					ti = -1
				case "reorder":
					j := (ti + 1) % len(routes)
					routes[ti], routes[j] = routes[j], routes[ti]
					ti = j
				}
			}
		}
		if mut {
			*uniq = u
		}
		return routes, ti
	}
	base, _ = build(false)
	reloaded, targetInReloaded = build(true)
	return
}

func partC(r *lib.Run) {
	rng := r.Rng("reload")
	echo, err := newEchoBackends(6)
	if err != nil {
		r.Inconclusive("cannot listen on loopback: " + err.Error())
		return
	}
	defer echo.close()
	pool := echo.addrs()

	h, err := e2e.New(e2e.Options{Mutate: func(c *jconfig.Config) {
		c.Lite.Enabled = true
		c.Lite.Routes = []config.Route{{Host: []string{"initial.reload.test"}, Backend: []string{pool[0]}}}
	}})
	if err != nil {
		r.Inconclusive("cannot build the proxy: " + err.Error())
		return
	}
	apply := func(routes []config.Route) error {
		next := h.P.Config() // copy of the current immutable snapshot; only the routes differ
		next.Lite.Routes = routes
		return h.P.ApplyLiveConfig(&next)
	}

	// every attribute a Lite route has, by reflection over the type
	var attrs []attr
	enumAttrs(reflect.TypeOf(config.Route{}), "", nil, &attrs)
	all := append(append([]attr(nil), attrs...), routeAttrs()...)

	var cases []reloadCase
	protos := []int32{47, 340, 765, 767}
	mk := func(kind string, as ...attr) reloadCase {
		c := reloadCase{Kind: kind, Protocol: protos[rng.Intn(len(protos))], Seed: rng.Int63(), attrs: as}
		for _, a := range as {
			c.Attrs = append(c.Attrs, a.Name)
		}
		return c
	}
	rounds := r.N(2, 30)
	for k := 0; k < rounds; k++ {
		for _, a := range all {
			kind := "single"
			if a.routeOp != "" {
				kind = "route"
			}
			cases = append(cases, mk(kind, a))
		}
		for i := 0; i < len(all); i++ {
			a, b := all[rng.Intn(len(all))], all[rng.Intn(len(all))]
			if a.Name == b.Name || conflicting(a, b) {
				continue
			}
			cases = append(cases, mk("pair", a, b))
		}
		for i := 0; i < 6; i++ {
			cases = append(cases, mk("identical"))
		}
	}
	rng.Shuffle(len(cases), func(i, j int) { cases[i], cases[j] = cases[j], cases[i] })

	var (
		uniq                                                            int
		perAttr                                                         = map[string]int{}
		perKind                                                         = map[string]int{}
		warm, coldCases, staleAnswers, postAnswers, postFresh           int
		identicalCached, identicalFresh, unrouted, contentOK, contentNo int
		rejected, noops                                                 int
	)
	for ci, c := range cases {
		c.Host = fmt.Sprintf("t%d.reload.test", ci)
		r.LogCase(c)
		base, reloaded, ti := c.configs(pool, &uniq)
		if c.Kind != "identical" && reflect.DeepEqual(base, reloaded) {
			noops++
			panic(fmt.Sprintf("C32 reload generator: variation %v changed nothing", c.Attrs))
		}
		if err := apply(base); err != nil {
			rejected++
			panic(fmt.Sprintf("C32 reload generator: base configuration rejected (%v) for %v: %+v", err, c.Attrs, base))
		}
		// warm the cache: every backend of the route may be chosen by the strategy
		var pre []pong
		inconclusive := false
		for i := 0; i < 2*len(base[targetIndex(base, c.Host)].Backend)+1; i++ {
			p := statusPing(h, c.Host, c.Protocol)
			r.Eval(1)
			if p.TimedOut {
				inconclusive = true
				break
			}
			pre = append(pre, p)
		}
		if inconclusive {
			r.Inconclusive("a status ping did not complete within the watchdog (before the reload)")
			continue
		}
		preIDs := map[int]bool{}
		cachedSeen := false
		for _, p := range pre {
			if p.ID != 0 {
				if preIDs[p.ID] {
					cachedSeen = true
				}
				preIDs[p.ID] = true
			}
		}
		if cachedSeen {
			warm++
		} else {
			coldCases++
		}

		if err := apply(reloaded); err != nil {
			rejected++
			panic(fmt.Sprintf("C32 reload generator: reloaded configuration rejected (%v) for %v: %+v", err, c.Attrs, reloaded))
		}
		reloadStamp := echo.stamp.Add(1) // ApplyLiveConfig has returned

		// requests that start after the reload: three in sequence, then three at once
		var post []pong
		for i := 0; i < 3; i++ {
			post = append(post, statusPing(h, c.Host, c.Protocol))
		}
		var wg sync.WaitGroup
		conc := make([]pong, 3)
		for i := range conc {
			wg.Add(1)
			go func(i int) { defer wg.Done(); conc[i] = statusPing(h, c.Host, c.Protocol) }(i)
		}
		wg.Wait()
		post = append(post, conc...)
		r.Eval(len(post))

		for qi, p := range post {
			if p.TimedOut {
				r.Inconclusive("a status ping did not complete within the watchdog (after the reload)")
				continue
			}
			if !p.Answered || p.ID == 0 {
				if ti < 0 {
					unrouted++
				}
				continue
			}
			postAnswers++
			fi, known := echo.info(p.ID)
			if !known {
				r.Violation("status-with-unknown-id", "a status was returned whose id no backend minted", map[string]any{"case": c, "status": lib.Trunc(p.Raw, 200)})
				continue
			}
			stale := fi.Stamp < reloadStamp
			if c.Kind == "identical" {
				if stale {
					identicalCached++
				} else {
					identicalFresh++
				}
				continue
			}
			if stale {
				staleAnswers++
				sig := "stale-status-after-reload-changing-" + c.Attrs[0]
				if len(c.Attrs) > 1 {
					sig = "stale-status-after-reload-changing-two-attributes"
				}
				var want string
				if ti >= 0 {
					want = describeRoute(reloaded[ti])
				}
				r.Violation(sig, "a status request that started after ApplyLiveConfig returned (the reload changed "+strings.Join(c.Attrs, " and ")+") was answered with a status the backend had produced before the reload",
					map[string]any{"case": c, "request_after_reload": qi, "status": lib.Trunc(p.Raw, 240), "status_id": p.ID, "backend_read_that_request_at_stamp": fi.Stamp, "reload_returned_at_stamp": reloadStamp,
						"ids_seen_before_reload": keysOf(preIDs), "echoed_virtual_host": p.VHost, "echoed_proxy_header": p.PP, "answering_backend_port": p.Port,
						"route_before": describeRoute(base[targetIndex(base, c.Host)]), "route_after": want})
				continue
			}
			postFresh++
			// content of a fresh answer against the reloaded route (evidence only: a fresh
			// status is by definition not one from before the reload)
			if ti >= 0 {
				if contentMatches(reloaded[ti], c.Host, p) {
					contentOK++
				} else {
					contentNo++
				}
			}
		}
		key := c.Kind + "|" + strings.Join(c.Attrs, "+")
		perKind[c.Kind]++
		for _, a := range c.Attrs {
			perAttr[a]++
		}
		r.Distinct("C|" + key + "|" + strconv.Itoa(int(c.Protocol)))
	}
	var names []string
	for _, a := range all {
		names = append(names, a.Name)
	}
	sort.Strings(names)
	r.Set("c_route_attributes_enumerated_by_reflection", names)
	r.Set("c_reloads_per_changed_attribute", perAttr)
	r.Set("c_reload_cases_by_kind", perKind)
	r.Set("c_cases_with_cache_hit_observed_before_reload", warm)
	r.Set("c_cases_without_cache_hit_before_reload", coldCases)
	r.Set("c_post_reload_answers", postAnswers)
	r.Set("c_post_reload_answers_fresh", postFresh)
	r.Set("c_post_reload_stale_answers", staleAnswers)
	r.Set("c_identical_reload_answers_from_cache", identicalCached)
	r.Set("c_identical_reload_answers_fresh", identicalFresh)
	r.Set("c_post_reload_pings_for_removed_route_unanswered", unrouted)
	r.Set("c_fresh_answers_matching_reloaded_route_settings", contentOK)
	r.Set("c_fresh_answers_not_matching_reloaded_route_settings", contentNo)
}

func conflicting(a, b attr) bool {
	if a.routeOp != "" && b.routeOp != "" {
		return true
	}
	if a.routeOp == "remove-target" || b.routeOp == "remove-target" {
		return true
	}
	if a.routeOp != "" || b.routeOp != "" {
		return false
	}
	// one path a prefix of the other (e.g. fallback(set->nil) and fallback.version.name)
	n := min(len(a.path), len(b.path))
	for i := 0; i < n; i++ {
		if a.path[i] != b.path[i] {
			return false
		}
	}
	return true
}

func targetIndex(routes []config.Route, host string) int {
	for i, rt := range routes {
		for _, hp := range rt.Host {
			if hp == host {
				return i
			}
		}
	}
	return 0
}

func keysOf(m map[int]bool) []int {
	var out []int
	for k := range m {
		out = append(out, k)
	}
	sort.Ints(out)
	return out
}

func describeRoute(rt config.Route) string {
	b, _ := json.Marshal(rt)
	return string(b)
}

// contentMatches: the echoed request matches the reloaded route's settings (backend in the
// list, PROXY header iff enabled, virtual host rewritten iff modifyVirtualHost).
func contentMatches(rt config.Route, host string, p pong) bool {
	var bhost string
	found := false
	for _, b := range rt.Backend {
		hh, pp, err := net.SplitHostPort(b)
		if err == nil && pp == strconv.Itoa(p.Port) {
			found, bhost = true, hh
		}
	}
	if !found || p.PP != rt.ProxyProtocol {
		return false
	}
	want := host
	if rt.ModifyVirtualHost {
		want = bhost
	}
	return p.VHost == want
}
