// C32: the Lite ping status cache never serves status from before a reload.
//
// Part A (hook, virtual time): histories on a private pingStatusCache built by the verif
// hook lite.VerifNewPingCache with the synctest bubble's clock. 2-16 goroutines issue
// load / get / reset on 1-3 keys (backend, protocol, route generation) with virtual sleeps
// in between; every loader invocation mints a unique status id, takes a scripted (virtual)
// time and may fail. All call/return/fetch-start/fetch-end events are stamped from one
// atomic counter at the client boundary plus the virtual clock. Offline interval checker:
//
//	(a) a request that STARTS after a reset RETURNED is never answered with a status whose
//	    fetch STARTED before that reset was called;
//	(b) never two fetches in flight for one key unless a reset took effect between them;
//	(c) nothing is served later than TTL after it was obtained;
//	(e) a status is only served for the key it was fetched for;
//	(f) within TTL and without a reset, a cached key is not fetched again.
//
// Part B (public API, real sockets): lite.ResolveStatusResponseWithGeneration against
// loopback status backends (answering with unique ids / refusing / accepting without
// answering), with and without a configured fallback:
//
//	(d) the fallback status is used only when every backend failed; otherwise a status that
//	    one of the route's backends produced in this case is returned;
//	(b') with the cache on, a burst of concurrent status requests for one key never has two
//	    status connections open at the backend at once.
package c32

import (
	"encoding/json"
	"errors"
	"fmt"
	"io"
	"math/rand"
	"net"
	"sort"
	"strconv"
	"strings"
	"sync"
	"sync/atomic"
	"testing"
	"testing/synctest"
	"time"

	"go.minekube.com/common/minecraft/component"
	"go.minekube.com/gate/pkg/edition/java/lite"
	"go.minekube.com/gate/pkg/edition/java/lite/config"
	"go.minekube.com/gate/pkg/edition/java/netmc"
	"go.minekube.com/gate/pkg/edition/java/ping"
	"go.minekube.com/gate/pkg/edition/java/proto/packet"
	"go.minekube.com/gate/pkg/edition/java/proxy/verifh/e2e/litefwd"
	"go.minekube.com/gate/pkg/edition/java/proxy/verifh/lib"
	"go.minekube.com/gate/pkg/gate/proto"
	"go.minekube.com/gate/pkg/util/configutil"
)

// ---- part A: scripts -------------------------------------------------------------------------------

type key struct {
	Backend  string
	Protocol int
	RouteGen uint64
}

type opSpec struct {
	Kind      string // load | get | reset
	Key       int
	SleepMs   int // virtual sleep before the op
	LoadMs    int // loader duration (virtual) if this op's loader runs
	LoadFails bool
}

type script struct {
	Keys  []key
	TTLMs []int
	Ops   [][]opSpec
}

var sleeps = []int{0, 0, 0, 1, 1, 100, 900, 1000, 3000, 7000}
var loadDur = []int{0, 0, 1, 500, 2000, 2000, 8000}
var ttls = []int{1000, 5000, 10000}

func genScript(rng *rand.Rand) script {
	var s script
	all := []key{}
	for _, b := range []string{"b1.example:25565", "b2.example:25565"} {
		for _, p := range []int{47, 765} {
			for _, g := range []uint64{0, 1} {
				all = append(all, key{b, p, g})
			}
		}
	}
	rng.Shuffle(len(all), func(i, j int) { all[i], all[j] = all[j], all[i] })
	nk := 1 + rng.Intn(3)
	s.Keys = all[:nk]
	for range s.Keys {
		s.TTLMs = append(s.TTLMs, ttls[rng.Intn(len(ttls))])
	}
	g := 2 + rng.Intn(15)
	for i := 0; i < g; i++ {
		n := 1 + rng.Intn(6)
		var ops []opSpec
		for j := 0; j < n; j++ {
			o := opSpec{Key: rng.Intn(nk), SleepMs: sleeps[rng.Intn(len(sleeps))], LoadMs: loadDur[rng.Intn(len(loadDur))], LoadFails: rng.Intn(4) == 0}
			switch x := rng.Intn(10); {
			case x < 6:
				o.Kind = "load"
			case x < 8:
				o.Kind = "get"
			default:
				o.Kind = "reset"
			}
			ops = append(ops, o)
		}
		s.Ops = append(s.Ops, ops)
	}
	return s
}

// ---- part A: event log ---------------------------------------------------------------------------------

type fetchRec struct {
	ID        int
	Key       int
	Op        int // index into ops of the request whose loader this is
	Start     int64
	StartTime time.Duration
	End       int64
	EndTime   time.Duration
	Failed    bool
}

type opRec struct {
	Idx      int
	G        int
	Kind     string
	Key      int
	Call     int64
	CallTime time.Duration
	Ret      int64
	RetTime  time.Duration
	ResultID int  // -1 none
	Hit      bool // get only
	Err      bool
}

type history struct {
	Script  script
	Ops     []opRec
	Fetches []fetchRec
}

func idOf(status string, err error) int {
	s := status
	if err != nil {
		s = err.Error()
	}
	if len(s) < 2 {
		return -1
	}
	n, e := strconv.Atoi(s[1:])
	if e != nil {
		return -1
	}
	return n
}

// runHistory executes the script inside a synctest bubble and returns the event log.
func runHistory(t *testing.T, s script) (h history, ok bool) {
	h.Script = s
	synctest.Test(t, func(t *testing.T) {
		epoch := time.Now()
		cache := lite.VerifNewPingCache(time.Now)
		var stamp atomic.Int64
		var nextID atomic.Int64
		var mu sync.Mutex
		var wg sync.WaitGroup
		opIdx := 0
		for g, ops := range s.Ops {
			base := opIdx
			opIdx += len(ops)
			wg.Add(1)
			go func(g int, ops []opSpec, base int) {
				defer wg.Done()
				for j, o := range ops {
					if o.SleepMs > 0 {
						time.Sleep(time.Duration(o.SleepMs) * time.Millisecond)
					}
					rec := opRec{Idx: base + j, G: g, Kind: o.Kind, Key: o.Key, ResultID: -1}
					k := s.Keys[o.Key]
					rec.CallTime = time.Since(epoch)
					rec.Call = stamp.Add(1)
					switch o.Kind {
					case "reset":
						cache.Reset()
					case "get":
						st, err, hit := cache.Get(k.Backend, k.Protocol, k.RouteGen)
						rec.Hit = hit
						if hit {
							rec.ResultID, rec.Err = idOf(st, err), err != nil
						}
					case "load":
						st, err := cache.Load(k.Backend, k.Protocol, k.RouteGen, time.Duration(s.TTLMs[o.Key])*time.Millisecond, func() (string, error) {
							f := fetchRec{ID: int(nextID.Add(1)), Key: o.Key, Op: base + j, Failed: o.LoadFails}
							f.StartTime = time.Since(epoch)
							f.Start = stamp.Add(1)
							if o.LoadMs > 0 {
								time.Sleep(time.Duration(o.LoadMs) * time.Millisecond)
							}
							f.EndTime = time.Since(epoch)
							f.End = stamp.Add(1)
							mu.Lock()
							h.Fetches = append(h.Fetches, f)
							mu.Unlock()
							if o.LoadFails {
								return "", errors.New("E" + strconv.Itoa(f.ID))
							}
							return "S" + strconv.Itoa(f.ID), nil
						})
						rec.ResultID, rec.Err = idOf(st, err), err != nil
					}
					rec.Ret = stamp.Add(1)
					rec.RetTime = time.Since(epoch)
					mu.Lock()
					h.Ops = append(h.Ops, rec)
					mu.Unlock()
				}
			}(g, ops, base)
		}
		wg.Wait()
		synctest.Wait()
		ok = true
	})
	sort.Slice(h.Ops, func(i, j int) bool { return h.Ops[i].Call < h.Ops[j].Call })
	sort.Slice(h.Fetches, func(i, j int) bool { return h.Fetches[i].Start < h.Fetches[j].Start })
	return h, ok
}

// ---- part A: offline checker --------------------------------------------------------------------------------

type finding struct {
	sig, what string
	detail    map[string]any
}

type stats struct {
	fetches, joins, cacheHits, getHits, getMisses, resets, resetsDuringFetch, refetchAfterReset, refetchAfterTTL, failedFetches int
}

func checkHistory(h history) (fs []finding, st stats) {
	byID := map[int]*fetchRec{}
	for i := range h.Fetches {
		byID[h.Fetches[i].ID] = &h.Fetches[i]
	}
	opByIdx := map[int]*opRec{}
	var resets []*opRec
	for i := range h.Ops {
		opByIdx[h.Ops[i].Idx] = &h.Ops[i]
		if h.Ops[i].Kind == "reset" {
			resets = append(resets, &h.Ops[i])
		}
	}
	st.fetches, st.resets = len(h.Fetches), len(resets)
	ttl := func(k int) time.Duration { return time.Duration(h.Script.TTLMs[k]) * time.Millisecond }
	resetBetween := func(afterCall, beforeStamp int64) bool { // a reset whose effect may lie in (afterCall, beforeStamp)
		for _, x := range resets {
			if x.Call < beforeStamp && x.Ret > afterCall {
				return true
			}
		}
		return false
	}
	for _, f := range h.Fetches {
		if f.Failed {
			st.failedFetches++
		}
		for _, x := range resets {
			if x.Call > f.Start && x.Call < f.End {
				st.resetsDuringFetch++
				break
			}
		}
	}
	for i := range h.Ops {
		r := &h.Ops[i]
		if r.Kind == "reset" {
			continue
		}
		if r.Kind == "get" {
			if r.Hit {
				st.getHits++
			} else {
				st.getMisses++
				continue
			}
		}
		f := byID[r.ResultID]
		if f == nil {
			fs = append(fs, finding{"result-without-fetch", "a request returned a status no loader produced", map[string]any{"op": r}})
			continue
		}
		if f.Op != r.Idx {
			if r.Call < f.End {
				st.joins++
			} else {
				st.cacheHits++
			}
		}
		// (e)
		if f.Key != r.Key {
			fs = append(fs, finding{"status-served-for-wrong-key", "a request was answered with a status fetched for another (backend, protocol, route generation)", map[string]any{"op": r, "fetch": f}})
			continue
		}
		// (a)
		for _, x := range resets {
			if x.Ret < r.Call && f.Start < x.Call {
				fs = append(fs, finding{"status-from-before-reset", "a request that started after a reset returned was answered with a status whose fetch started before that reset was called", map[string]any{"op": r, "fetch": f, "reset": x}})
				break
			}
		}
		// (c)
		if r.Call > f.End && r.CallTime > f.EndTime+ttl(r.Key) {
			fs = append(fs, finding{"status-served-past-ttl", "a request was answered with a status older than the TTL", map[string]any{"op": r, "fetch": f, "ttl_ms": h.Script.TTLMs[r.Key]}})
		}
	}
	// (b) and (f)
	for i := range h.Fetches {
		f2 := &h.Fetches[i]
		for j := 0; j < i; j++ {
			f1 := &h.Fetches[j]
			if f1.Key != f2.Key {
				continue
			}
			r1 := opByIdx[f1.Op]
			r2 := opByIdx[f2.Op]
			if r1 == nil || r2 == nil {
				continue
			}
			// the two requests captured the cache generation somewhere after their call
			// stamps and before their fetches started: a reset whose effect may lie in
			// (min(call1, call2), max(start1, start2)) legitimately separates the flights
			// (clause (a) even requires the later request not to join the stale flight)
			reset := resetBetween(min(r1.Call, r2.Call), f2.Start)
			if f2.Start < f1.End { // overlap
				if !reset {
					fs = append(fs, finding{"two-fetches-in-flight", "two backend status fetches for one key were in flight at once with no reset between them", map[string]any{"first": f1, "second": f2, "first_request": r1, "second_request": r2}})
				}
				continue
			}
			if reset {
				if r2.Call > f1.End {
					st.refetchAfterReset++
				}
				continue
			}
			if r2.Call > r1.Ret {
				if f2.StartTime < f1.EndTime+ttl(f2.Key) {
					fs = append(fs, finding{"refetch-within-ttl", "a key was fetched again although a cached result was still within its TTL and no reset happened", map[string]any{"first": f1, "second": f2, "second_request": r2, "ttl_ms": h.Script.TTLMs[f2.Key]}})
				} else {
					st.refetchAfterTTL++
				}
			}
		}
	}
	return fs, st
}

// ---- part B: status backends ----------------------------------------------------------------------------------

type statusBackend struct {
	b        *litefwd.Backend
	mode     atomic.Int32 // 0 answer, 1 close without answering
	delay    atomic.Int64 // real ns to hold the connection before answering
	inflight atomic.Int32
	maxIn    atomic.Int32
	served   atomic.Int32
	nextID   *atomic.Int64
	stamp    *atomic.Int64 // shared event counter (request-read events and resets)
	mu       sync.Mutex
	ids      map[int]int64                 // id -> stamp taken when the backend had read that status request
	hold     atomic.Pointer[chan struct{}] // when set: signal arrival, answer only after it is closed
	arrived  chan struct{}
}

func statusJSON(marker string) string {
	return `{"version":{"name":"ref","protocol":765},"players":{"max":10,"online":1},"description":{"text":"` + marker + `"}}`
}

func newStatusBackend(nextID, stamp *atomic.Int64) (*statusBackend, error) {
	sb := &statusBackend{nextID: nextID, stamp: stamp, ids: map[int]int64{}, arrived: make(chan struct{}, 256)}
	var err error
	sb.b, err = litefwd.Listen(0, func(c net.Conn, idx int) {
		defer c.Close()
		_ = c.SetDeadline(time.Now().Add(20 * time.Second))
		// handshake frame, then status request frame
		buf := make([]byte, 0, 512)
		tmp := make([]byte, 512)
		frames := 0
		for frames < 2 {
			l, k := litefwd.ReadVarInt(buf)
			if k > 0 && len(buf) >= k+int(l) {
				buf = buf[k+int(l):]
				frames++
				continue
			}
			nr, err := c.Read(tmp)
			if nr > 0 {
				buf = append(buf, tmp[:nr]...)
			}
			if err != nil {
				return
			}
		}
		if sb.mode.Load() == 1 {
			return
		}
		// a status request is "in flight" from the moment the backend has read it until
		// the backend has written its answer
		readStamp := sb.stamp.Add(1)
		n := sb.inflight.Add(1)
		for {
			m := sb.maxIn.Load()
			if n <= m || sb.maxIn.CompareAndSwap(m, n) {
				break
			}
		}
		if d := sb.delay.Load(); d > 0 {
			time.Sleep(time.Duration(d))
		}
		if h := sb.hold.Load(); h != nil {
			select {
			case sb.arrived <- struct{}{}:
			default:
			}
			select {
			case <-*h:
			case <-time.After(15 * time.Second):
			}
		}
		id := int(sb.nextID.Add(1))
		sb.mu.Lock()
		sb.ids[id] = readStamp
		sb.mu.Unlock()
		js := statusJSON("ID-" + strconv.Itoa(id))
		p := litefwd.AppendVarInt(nil, 0)
		p = litefwd.AppendVarInt(p, int32(len(js)))
		p = append(p, js...)
		_, _ = c.Write(litefwd.FramePayload(p))
		sb.inflight.Add(-1)
		sb.served.Add(1)
		_, _ = io.Copy(io.Discard, c)
	})
	return sb, err
}

type statusResult struct {
	status string
	err    error
	done   bool
}

// resolve performs one status request through the real handshake decoding and
// lite.ResolveStatusResponseWithGeneration, like the proxy's status session handler does.
func resolve(routes []config.Route, sm *lite.StrategyManager, protocol int32, gen uint64) statusResult {
	var res statusResult
	var mu sync.Mutex
	fin := make(chan struct{})
	s := litefwd.Start(litefwd.Options{Routes: routes, SM: sm, OnStatus: func(s *litefwd.Session, conn netmc.MinecraftConn, hs *packet.Handshake, pc *proto.PacketContext) {
		defer close(fin)
		req := &proto.PacketContext{Direction: proto.ServerBound, Protocol: proto.Protocol(hs.ProtocolVersion), PacketID: 0, Packet: &packet.StatusRequest{}, Payload: []byte{0x00}}
		_, r, err := lite.ResolveStatusResponseWithGeneration(5*time.Second, gen, routes, s.Rec.Logger(), conn, hs, pc, req, sm)
		mu.Lock()
		res.err, res.done = err, true
		if r != nil {
			res.status = r.Status
		}
		mu.Unlock()
		_ = conn.Close()
	}})
	hs := litefwd.Handshake{Protocol: protocol, Address: "status.example.org", Port: 25565, Next: 1}
	_, _ = s.Client.Write(hs.Frame())
	lib.Returns(40*time.Second, func() { <-fin; <-s.LoopReturned() })
	_ = s.Client.Close()
	mu.Lock()
	defer mu.Unlock()
	return res
}

func markerOf(status string) string {
	var v struct {
		Description any `json:"description"`
	}
	if json.Unmarshal([]byte(status), &v) != nil {
		return ""
	}
	b, _ := json.Marshal(v.Description)
	s := string(b)
	for _, pre := range []string{"ID-", "FALLBACK-"} {
		if i := strings.Index(s, pre); i >= 0 {
			j := i + len(pre)
			for j < len(s) && s[j] >= '0' && s[j] <= '9' {
				j++
			}
			return s[i:j]
		}
	}
	return ""
}

func partB(r *lib.Run) {
	rng := r.Rng("fallback")
	var nextID, stamp atomic.Int64
	var sbs []*statusBackend
	for i := 0; i < 3; i++ {
		sb, err := newStatusBackend(&nextID, &stamp)
		if err != nil {
			r.Inconclusive("cannot listen on loopback: " + err.Error())
			return
		}
		defer sb.b.Close()
		sbs = append(sbs, sb)
	}
	refused, err := litefwd.ReserveRefused(0)
	if err != nil {
		r.Inconclusive("cannot reserve a refusing port: " + err.Error())
		return
	}
	defer refused.Release()

	n := r.N(160, 3000)
	var fallbackUsed, backendAnswered, errorsNoFallback, cachedServed, bursts, e2eResets int
	for i := 0; i < n; i++ {
		lite.ResetPingCache()
		nb := 1 + rng.Intn(4)
		var backends []string
		var kinds []string
		anyAnswering := false
		for j := 0; j < nb; j++ {
			switch rng.Intn(3) {
			case 0:
				backends = append(backends, fmt.Sprintf("127.0.0.1:%d", refused.Port))
				kinds = append(kinds, "refused")
			default:
				sb := sbs[rng.Intn(len(sbs))]
				backends = append(backends, fmt.Sprintf("127.0.0.1:%d", sb.b.Port))
				kinds = append(kinds, "listener")
			}
		}
		// listener modes for this case
		modes := map[int]int32{}
		for _, sb := range sbs {
			m := int32(rng.Intn(2))
			sb.mode.Store(m)
			sb.delay.Store(0)
			modes[sb.b.Port] = m
		}
		for j, b := range backends {
			if kinds[j] == "listener" {
				p, _ := strconv.Atoi(b[strings.LastIndexByte(b, ':')+1:])
				if modes[p] == 0 {
					anyAnswering = true
					kinds[j] = "answering"
				} else {
					kinds[j] = "silent"
				}
			}
		}
		withFallback := rng.Intn(3) != 0
		cacheOn := rng.Intn(2) == 0
		strat := []string{"sequential", "", "random", "round-robin", "lowest-latency"}[rng.Intn(5)]
		rt := config.Route{Host: []string{"*"}, Backend: backends, Strategy: config.Strategy(strat)}
		if !cacheOn {
			rt.CachePingTTL = configutil.Duration(-1)
		}
		fbMarker := "FALLBACK-" + strconv.Itoa(i)
		if withFallback {
			rt.Fallback = &config.Status{MOTD: &configutil.Component{Value: &component.Text{Content: fbMarker}}, Version: ping.Version{Name: "fb", Protocol: 765}}
		}
		routes := []config.Route{rt}
		cs := map[string]any{"backends": backends, "kinds": kinds, "fallback": withFallback, "cache": cacheOn, "strategy": strat}
		r.LogCase(cs)
		idsBefore := nextID.Load()
		reqs := 1 + rng.Intn(3)
		sm := lite.NewStrategyManager()
		for q := 0; q < reqs; q++ {
			res := resolve(routes, sm, 765, uint64(i))
			r.Eval(1)
			if !res.done {
				r.Inconclusive("status request did not complete within the watchdog")
				break
			}
			m := markerOf(res.status)
			w := map[string]any{"case": cs, "request": q, "status": lib.Trunc(res.status, 200), "error": fmt.Sprint(res.err)}
			switch {
			case strings.HasPrefix(m, "FALLBACK-"):
				fallbackUsed++
				if m != fbMarker || !withFallback {
					r.Violation("fallback-of-another-route", "a fallback status was returned that this route does not configure", w)
				} else if anyAnswering {
					r.Violation("fallback-used-although-a-backend-answers", "the configured fallback status was returned although a backend of the route answers status requests", w)
				}
			case strings.HasPrefix(m, "ID-"):
				backendAnswered++
				id, _ := strconv.Atoi(m[3:])
				if !anyAnswering {
					r.Violation("status-from-nowhere", "a backend status was returned although no backend of the route answers", w)
				} else if int64(id) <= idsBefore {
					r.Violation("status-from-before-reset", "after ResetPingCache a status minted before the reset was returned", w)
				} else if q > 0 {
					cachedServed++
				}
			case res.err != nil:
				errorsNoFallback++
				if anyAnswering {
					r.Violation("status-error-although-a-backend-answers", "the status request failed although a backend of the route answers", w)
				} else if withFallback {
					r.Violation("fallback-not-used-when-all-backends-failed", "every backend failed and a fallback is configured, yet the request failed", w)
				}
			default:
				r.Violation("status-unrecognised", "the status returned is neither a backend's nor the fallback", w)
			}
		}
		r.Distinct(fmt.Sprintf("B|%v|%v|%v|%v|%s|%d", kinds, withFallback, cacheOn, modes, strat, reqs))
		if r.WantSample() {
			r.Sample(cs)
		}

		// (b') burst on one answering backend with the cache on
		if i%8 == 0 {
			sb := sbs[rng.Intn(len(sbs))]
			sb.mode.Store(0)
			sb.delay.Store(int64(15 * time.Millisecond))
			sb.maxIn.Store(0)
			lite.ResetPingCache()
			rt := config.Route{Host: []string{"*"}, Backend: []string{fmt.Sprintf("127.0.0.1:%d", sb.b.Port)}}
			g := 2 + rng.Intn(12)
			burst := func(gen uint64) (maxIn int32, served int32) {
				sb.maxIn.Store(0)
				before := sb.served.Load()
				lite.ResetPingCache()
				var wg sync.WaitGroup
				for k := 0; k < g; k++ {
					wg.Add(1)
					go func() {
						defer wg.Done()
						resolve([]config.Route{rt}, sm, 765, gen)
					}()
				}
				wg.Wait()
				return sb.maxIn.Load(), sb.served.Load() - before
			}
			m, served := burst(uint64(1000000 + i))
			r.Eval(1)
			bursts++
			if m > 1 {
				// A broken single-flight shows on every burst. Repeat twice on fresh keys and
				// only report what reproduces; a one-off overlap is recorded as inconclusive.
				m2, served2 := burst(uint64(3000000 + 2*i))
				m3, served3 := burst(uint64(3000001 + 2*i))
				w := map[string]any{"concurrent_requests": g, "max_connections_in_flight": []int32{m, m2, m3}, "status_requests_answered_per_burst": []int32{served, served2, served3}}
				if m2 > 1 || m3 > 1 {
					r.Violation("two-status-connections-in-flight", "with the ping cache on, concurrent status requests for one (backend, protocol, generation) opened more than one status connection at a time", w)
				} else {
					r.Inconclusive(fmt.Sprintf("one burst showed %d status requests in flight at once but two repeats showed 1: %v", m, w))
				}
			}
			r.Distinct(fmt.Sprintf("burst|%d|%d", g, i))

			// (a) end to end: a request is in flight at the backend, ResetPingCache returns,
			// then a second request for the same key starts: it must not be answered with
			// the status whose request the backend had read before the reset.
			lite.ResetPingCache()
			gen := uint64(2000000 + i)
			sb.delay.Store(0)
			for len(sb.arrived) > 0 {
				<-sb.arrived
			}
			hold := make(chan struct{})
			sb.hold.Store(&hold)
			first := make(chan statusResult, 1)
			go func() { first <- resolve([]config.Route{rt}, sm, 765, gen) }()
			okIn, _ := lib.Returns(20*time.Second, func() { <-sb.arrived })
			if !okIn {
				sb.hold.Store(nil)
				close(hold)
				f := <-first
				r.Inconclusive(fmt.Sprintf("the first status request was not seen in flight at the backend (done=%v err=%v)", f.done, f.err))
			} else {
				lite.ResetPingCache()
				resetStamp := stamp.Add(1)
				secondCh := make(chan statusResult, 1)
				go func() { secondCh <- resolve([]config.Route{rt}, sm, 765, gen) }()
				// correct code opens a second status connection now (the first is still held);
				// wait for it, or a short grace if the request joined the stale flight instead
				select {
				case <-sb.arrived:
				case <-time.After(100 * time.Millisecond):
				}
				sb.hold.Store(nil)
				close(hold)
				second := <-secondCh
				<-first
				r.Eval(1)
				e2eResets++
				if id, err := strconv.Atoi(strings.TrimPrefix(markerOf(second.status), "ID-")); err == nil {
					sb.mu.Lock()
					st, known := sb.ids[id]
					sb.mu.Unlock()
					if known && st < resetStamp {
						r.Violation("status-from-before-reset", "a status request that started after ResetPingCache returned was answered with the status of a backend request that was already in flight before the reset [e2e]",
							map[string]any{"status": second.status, "backend_read_request_at_stamp": st, "reset_returned_at_stamp": resetStamp})
					}
				} else {
					r.Inconclusive("post-reset status request returned no backend status")
				}
				r.Distinct(fmt.Sprintf("e2e-reset|%d", i))
			}
			sb.delay.Store(0)
		}
	}
	r.Set("b_fallback_used", fallbackUsed)
	r.Set("b_backend_status_returned", backendAnswered)
	r.Set("b_errors_without_fallback", errorsNoFallback)
	r.Set("b_repeat_requests_served_within_case", cachedServed)
	r.Set("b_bursts", bursts)
	r.Set("b_reset_while_in_flight_scenarios", e2eResets)
}

// ---- the test -----------------------------------------------------------------------------------------------------

func TestC32(t *testing.T) {
	r := lib.Start(t, "C32")
	defer r.Finish()
	r.Rule("part A: history = script of 2-16 goroutines x 1-6 ops (load 60% / get 20% / reset 20%) on 1-3 keys (backend x protocol x route generation) with TTL in {1,5,10}s, virtual sleeps in {0,1ms,100ms,0.9s,1s,3s,7s} before ops, loaders taking {0,1ms,0.5s,2s,8s} virtual time and failing with p=1/4, run in a testing/synctest bubble on a hook-built pingStatusCache; distinct = distinct (script, observed hit/join/fetch pattern). part B: case = route of 1-4 backends (answering / silent / refusing loopback status servers), fallback on/off, cache on/off, strategy, 1-3 sequential status requests through lite.ResolveStatusResponseWithGeneration after ResetPingCache, plus bursts of 2-13 concurrent requests on one slow backend")
	r.Rule("part C: case = ApplyLiveConfig(base) -> 3-5 status pings through Proxy.HandleConn (cache warm) -> ApplyLiveConfig(reloaded) -> 3 sequential + 3 concurrent pings, where reloaded differs from base in exactly one attribute of the pinged Lite route (every attribute of config.Route enumerated by reflection: hosts/backends add/remove/reorder/replace, cachePingTTL, each fallback sub-field and nil<->set, proxyProtocol, realIP, tcpShieldRealIP, modifyVirtualHost, strategy), in a whole route (added before/after, another removed, the pinged one removed, moved), in two of these, or in nothing; base route random (1-2 of 6 echo backends in two host spellings, TTL default/30s/1m, flags, strategy, fallback); backends mint a unique id per status request and echo virtual host / PROXY header / port in the MOTD; distinct = (kind, changed attributes, protocol)")
	r.Assume("call/return/fetch stamps come from one atomic counter at the client boundary; virtual times from the synctest bubble clock, which is also the cache's injected clock")
	r.Assume("hook lite.VerifNewPingCache builds the cache exactly like the package-level pingCache (newPingStatusCache(now, new(singleflight.Group)))")

	nHist := r.N(2000, 60000)
	workers := 8
	var total stats
	var mu sync.Mutex
	patterns := map[string]struct{}{}
	var wg sync.WaitGroup
	for w := 0; w < workers; w++ {
		wg.Add(1)
		go func(w int) {
			defer wg.Done()
			rng := r.Rng(fmt.Sprintf("hist-%d", w))
			for i := 0; i < nHist/workers; i++ {
				s := genScript(rng)
				if w == 0 {
					r.LogCase(s)
				}
				h, ok := runHistory(t, s)
				r.Eval(1)
				if !ok {
					r.Inconclusive("history did not complete inside the bubble")
					continue
				}
				fs, st := checkHistory(h)
				for _, f := range fs {
					f.detail["script"] = s
					r.Violation(f.sig, f.what, f.detail)
				}
				var pat strings.Builder
				for _, o := range h.Ops {
					fmt.Fprintf(&pat, "%d%s%d:%d;", o.G, o.Kind[:1], o.Key, o.ResultID)
				}
				mu.Lock()
				total.fetches += st.fetches
				total.joins += st.joins
				total.cacheHits += st.cacheHits
				total.getHits += st.getHits
				total.getMisses += st.getMisses
				total.resets += st.resets
				total.resetsDuringFetch += st.resetsDuringFetch
				total.refetchAfterReset += st.refetchAfterReset
				total.refetchAfterTTL += st.refetchAfterTTL
				total.failedFetches += st.failedFetches
				patterns[pat.String()] = struct{}{}
				mu.Unlock()
				r.Distinct(pat.String())
				if w == 0 && r.WantSample() {
					r.Sample(map[string]any{"part": "A", "keys": s.Keys, "ttl_ms": s.TTLMs, "goroutines": len(s.Ops), "ops": len(h.Ops), "fetches": len(h.Fetches), "pattern": lib.Trunc(pat.String(), 300)})
				}
			}
		}(w)
	}
	wg.Wait()
	r.Set("a_histories", nHist)
	r.Set("a_fetches", total.fetches)
	r.Set("a_failed_fetches", total.failedFetches)
	r.Set("a_requests_joined_inflight_fetch", total.joins)
	r.Set("a_requests_served_from_cache", total.cacheHits)
	r.Set("a_get_hits", total.getHits)
	r.Set("a_get_misses", total.getMisses)
	r.Set("a_resets", total.resets)
	r.Set("a_fetches_with_reset_during_flight", total.resetsDuringFetch)
	r.Set("a_refetches_after_reset", total.refetchAfterReset)
	r.Set("a_refetches_after_ttl_expiry", total.refetchAfterTTL)
	r.Set("a_distinct_outcome_patterns", len(patterns))

	partB(r)
	partC(r)
}
