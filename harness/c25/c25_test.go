// C25: plugin channel events fire for forwarded messages with the real message body.
//
// Statement: every channel registration a client sends that the proxy forwards to its
// backend raises exactly one channel-register event, and every plugin-message event, in any
// connection phase and either direction, exposes exactly the plugin message's body (not the
// raw packet) so that the data a handler sees is the data forwarded.
//
// Monitor: a live in-process proxy (harness/e2e), one fake client and one *gated* fake
// backend per session. The monitor subscribes on the proxy's real event.Manager and records
// every PluginMessageEvent (copy of Data(), identifier, and the decision the handler took)
// and every PlayerChannelRegisterEvent / PlayerChannelUnregisterEvent. Client and backend
// then send plugin messages in configuration (>= 1.20.2) and in play, in both directions:
// custom payloads on channels with and without a proxy-side ChannelRegistrar entry (modern
// `ns:name`, legacy-registered names), `minecraft:register` / `REGISTER` /
// `minecraft:unregister` bodies, empty bodies, 32 767-byte bodies (the serverbound maximum)
// and larger clientbound ones. Every message carries a unique token (in its body, or — for
// empty bodies — in a per-message channel name), and the handler's decision (allow / deny /
// leave the default) is a function of the token.
//
// Oracle (offline, per session): the event records are joined with what the fake peer on the
// other side received, by token.
//
//	R  a register message observed at the backend with the body the client sent (= forwarded)
//	   must have exactly one PlayerChannelRegisterEvent whose channel list names the channels
//	   of that body;
//	D  every PluginMessageEvent's Data() must equal the body of the message that carried the
//	   token;
//	F1 a message that was delivered after its event must carry exactly the bytes the handler
//	   saw;
//	F2 a message whose handler said SetForward(false) must not be delivered;
//	F3 a message whose handler said SetForward(true) must be delivered (decided only when a
//	   later message of the same path did arrive, see below).
//
// Latitude taken (oracle no stricter than the statement):
//   - Completeness is logical, not wall-clock: after the messages of a phase the sender
//     sends a marker on a channel without registrar entry (forwarded synchronously by the
//     session handler), the monitor waits for it on the other side (=> the proxy's read loop
//     has handled everything sent before), calls event.Manager.Wait() (=> every event fired
//     so far, parallel ones and their after-functions included, has finished) and exchanges a
//     second marker (=> everything written to the receiver has been read by it). Only the
//     marker waits have a (generous) watchdog; its expiry is inconclusive.
//   - The statement does not say that every message raises an event, nor what happens when a
//     handler leaves the event's default: messages without an event and "default" decisions
//     are only counted. (Observed and reported as a diagnostic: in configuration the default
//     is "do not forward", in play it is "forward".)
//   - Register messages sent in the *configuration* phase are forwarded by Gate without any
//     register event. The statement's register clause is anchored in the play handler and
//     configuration channels are a different namespace on the client; 0 or 1 event is
//     accepted there (>1 is not) and the count is reported.
//   - Register bodies only contain distinct, valid channel names, so "the channels of the
//     body" is unambiguous; for < 1.13 Gate reports name `x` as `minecraft:x`, which is
//     accepted.
//   - A register that was *not* forwarded (backend write failed) is not judged.
//   - Source()/Target() of the event are recorded as diagnostics only.
package c25

import (
	"bytes"
	"crypto/sha1"
	"encoding/hex"
	"fmt"
	"math/rand"
	"os"
	"regexp"
	"sort"
	"strings"
	"sync"
	"sync/atomic"
	"testing"
	"time"

	"github.com/robinbraemer/event"
	"go.minekube.com/gate/pkg/edition/java/proto/state/states"
	"go.minekube.com/gate/pkg/edition/java/proxy"
	"go.minekube.com/gate/pkg/edition/java/proxy/message"
	"go.minekube.com/gate/pkg/edition/java/proxy/verifh/e2e"
	"go.minekube.com/gate/pkg/edition/java/proxy/verifh/lib"
	"go.minekube.com/gate/pkg/gate/proto"
)

type msg struct {
	ID       string   `json:"id"`
	Dir      string   `json:"dir"`   // c2b | b2c
	Phase    string   `json:"phase"` // config | play
	Kind     string   `json:"kind"`  // custom-registered | custom-unregistered | register | unregister
	Channel  string   `json:"channel"`
	Size     int      `json:"size"`
	Decision string   `json:"decision,omitempty"` // allow | deny | default (custom-registered only)
	Names    []string `json:"names,omitempty"`    // register / unregister bodies
	data     []byte
	order    int
}

type evRec struct {
	id       string
	ident    string
	data     []byte
	src, dst string
	decision string
}

type recorder struct {
	mu        sync.Mutex
	decisions map[string]string // token -> decision
	chanTok   map[string]string // per-message channel id -> token (empty bodies)
	events    []evRec
	regs      [][]string
	unregs    [][]string
}

var tokenRe = regexp.MustCompile(`<<(s[0-9]+m[0-9]+)>>`)

func tokenOf(data []byte) string {
	if m := tokenRe.FindSubmatch(data); m != nil {
		return string(m[1])
	}
	return ""
}

func (rc *recorder) onPluginMessage(e *proxy.PluginMessageEvent) {
	data := append([]byte(nil), e.Data()...)
	ident := ""
	if e.Identifier() != nil {
		ident = e.Identifier().ID()
	}
	rc.mu.Lock()
	tok := tokenOf(data)
	if tok == "" {
		tok = rc.chanTok[ident]
	}
	dec := rc.decisions[tok]
	rc.mu.Unlock()
	switch dec {
	case "allow":
		e.SetForward(true)
	case "deny":
		e.SetForward(false)
	}
	rc.mu.Lock()
	rc.events = append(rc.events, evRec{id: tok, ident: ident, data: data, src: fmt.Sprintf("%T", e.Source()), dst: fmt.Sprintf("%T", e.Target()), decision: dec})
	rc.mu.Unlock()
}

func idsOf(ids []message.ChannelIdentifier) []string {
	out := make([]string, 0, len(ids))
	for _, id := range ids {
		out = append(out, id.ID())
	}
	return out
}

func sizeClass(n int) string {
	switch {
	case n == 0:
		return "empty"
	case n < 64:
		return "small"
	case n < 32767:
		return "mid"
	case n == 32767:
		return "max-serverbound"
	default:
		return "over-32767"
	}
}

// body builds a body of exactly n bytes carrying the token when there is room.
func body(rng *rand.Rand, tok string, n int) []byte {
	t := []byte("<<" + tok + ">>")
	if n < len(t) {
		n = len(t)
	}
	b := make([]byte, n)
	rng.Read(b)
	// keep accidental second tokens out of the filler
	for i := range b {
		if b[i] == '<' {
			b[i] = '('
		}
	}
	off := 0
	if n > len(t) {
		off = rng.Intn(n - len(t) + 1)
		if rng.Intn(2) == 0 {
			off = 0
		}
	}
	copy(b[off:], t)
	return b
}

func short(b []byte) string {
	h := sha1.Sum(b)
	head := b
	if len(head) > 48 {
		head = head[:48]
	}
	return fmt.Sprintf("len=%d sha1=%s head=%q", len(b), hex.EncodeToString(h[:4]), head)
}

func howDiffers(evData, bodyData []byte, channel string) string {
	switch {
	case len(evData) > len(bodyData) && bytes.HasSuffix(evData, bodyData) && bytes.Contains(evData[:len(evData)-len(bodyData)], []byte(lastPart(channel))):
		return "raw-packet-payload"
	case len(evData) < len(bodyData) && bytes.HasPrefix(bodyData, evData):
		return "truncated"
	case len(evData) > len(bodyData) && bytes.HasPrefix(evData, bodyData):
		return "trailing-bytes"
	default:
		return "differs"
	}
}

func lastPart(ch string) string {
	if i := strings.LastIndex(ch, ":"); i >= 0 {
		return ch[i+1:]
	}
	return strings.ToLower(ch)
}

type session struct {
	n       int
	pv      proto.Protocol
	regMode string // both | modern | none
	r       *lib.Run
	rng     *rand.Rand
	h       *e2e.Harness
	rec     *recorder
	c       *e2e.Client
	gc      *e2e.GatedConn
	next    int
	sent    []*msg
	desc    map[string]any
}

const (
	chModern = "c25:ev"
	chLegacy = "C25LEG"
	chFree   = "c25:free"
	chMarker = "c25:marker"
)

func (s *session) newID() string { s.next++; return fmt.Sprintf("s%dm%d", s.n, s.next) }
func (s *session) newIDLocked() string { return s.newID() }

func (s *session) registered(ch string) bool {
	_, ok := s.h.P.ChannelRegistrar().FromID(ch)
	return ok
}

// gen draws the messages of one (phase, direction).
func (s *session) gen(phase, dir string, n int) []*msg {
	var out []*msg
	sizes := []int{0, 0, 1, 13, 40, 200, 2000, 32767}
	if dir == "b2c" {
		sizes = append(sizes, 70000)
	}
	for i := 0; i < n; i++ {
		m := &msg{ID: s.newID(), Dir: dir, Phase: phase}
		k := s.rng.Intn(10)
		switch {
		case dir == "c2b" && k < 3:
			m.Kind = "register"
		case dir == "c2b" && k == 3:
			m.Kind = "unregister"
		case k < 8 && s.regMode != "none":
			m.Kind = "custom-registered"
		default:
			m.Kind = "custom-unregistered"
		}
		switch m.Kind {
		case "register", "unregister":
			legacyName := s.pv < 393 || s.rng.Intn(4) == 0 // modern clients may still use the legacy channel name
			if m.Kind == "register" {
				m.Channel = "minecraft:register"
				if legacyName {
					m.Channel = "REGISTER"
				}
			} else {
				m.Channel = "minecraft:unregister"
				if legacyName {
					m.Channel = "UNREGISTER"
				}
			}
			cnt := 1 + s.rng.Intn(4)
			if s.rng.Intn(12) == 0 {
				cnt = 0 // empty register body
			}
			for j := 0; j < cnt; j++ {
				if s.pv < 393 {
					m.Names = append(m.Names, fmt.Sprintf("c25%s%c", m.ID, 'a'+j))
				} else {
					m.Names = append(m.Names, fmt.Sprintf("c25:%s%c", m.ID, 'a'+j))
				}
			}
			m.data = []byte(strings.Join(m.Names, "\x00"))
		case "custom-registered":
			m.Decision = []string{"allow", "allow", "deny", "default"}[s.rng.Intn(4)]
			size := sizes[s.rng.Intn(len(sizes))]
			if size == 0 {
				// empty body: the token lives in a per-message registered channel
				m.Channel = "c25:e" + m.ID
				id, _ := message.ChannelIdentifierFrom(m.Channel)
				s.h.P.ChannelRegistrar().Register(id)
				s.rec.mu.Lock()
				s.rec.chanTok[m.Channel] = m.ID
				s.rec.mu.Unlock()
				m.data = []byte{}
			} else {
				m.Channel = chModern
				if s.regMode == "both" && s.rng.Intn(3) == 0 {
					m.Channel = chLegacy
				}
				m.data = body(s.rng, m.ID, size)
			}
			s.rec.mu.Lock()
			s.rec.decisions[m.ID] = m.Decision
			s.rec.mu.Unlock()
		default:
			m.Channel = chFree
			size := sizes[1+s.rng.Intn(len(sizes)-1)]
			m.data = body(s.rng, m.ID, size)
		}
		m.Size = len(m.data)
		out = append(out, m)
	}
	return out
}

func (s *session) sender(dir string) *e2e.Peer {
	if dir == "c2b" {
		return s.c.Peer
	}
	return s.gc.Peer
}

func (s *session) receiver(dir string) *e2e.Peer {
	if dir == "c2b" {
		return s.gc.Peer
	}
	return s.c.Peer
}

// mark sends a marker on a channel without registrar entry and returns its bytes.
func (s *session) mark(dir, phase string) []byte {
	tok := s.newIDLocked()
	data := []byte("<<" + tok + ">>MARK")
	if err := s.sender(dir).SendPlugin(chMarker, data); err != nil {
		s.r.Inconclusive(fmt.Sprintf("session %d: marker could not be sent (%s %s): %v", s.n, phase, dir, err))
		return nil
	}
	return data
}

func (s *session) awaitMark(dir, phase string, data []byte) bool {
	if data == nil {
		return false
	}
	_, err := s.receiver(dir).WaitFor(func(rc *e2e.Rec) bool { return bytes.Contains(rc.Payload, data) }, e2e.Watchdog)
	if err != nil {
		s.r.Inconclusive(fmt.Sprintf("session %d: marker not relayed (%s %s): %v", s.n, phase, dir, err))
		return false
	}
	return true
}

// barrier (see the latitude notes at the top): marker per direction, wait for both (the
// proxy's read loops have handled everything sent before), event.Manager.Wait() while
// nothing is in flight (every event fired so far and its after-function has finished),
// second marker per direction, wait for both (the receivers have read everything written).
func (s *session) barrier(phase string, dirs ...string) bool {
	for round := 0; round < 2; round++ {
		marks := map[string][]byte{}
		for _, d := range dirs {
			marks[d] = s.mark(d, phase)
		}
		for _, d := range dirs {
			if !s.awaitMark(d, phase, marks[d]) {
				return false
			}
		}
		if round == 0 {
			if strings.HasPrefix(phase, "config") {
				// the initial connection attempt itself runs as the after-function of the parallel
				// PostLoginEvent and does not return while the backend is held in configuration,
				// so only the handlers of the events of interest can be awaited here; the
				// configuration handlers pause reading until their after-function has forwarded,
				// and judge() additionally gives a missing allowed message a generous grace
				s.h.Ev.Wait(&proxy.PluginMessageEvent{}, &proxy.PlayerChannelRegisterEvent{}, &proxy.PlayerChannelUnregisterEvent{})
			} else {
				s.h.Ev.Wait()
			}
		}
	}
	return true
}

// runPhase sends the messages of one phase, both directions concurrently.
func (s *session) runPhase(phase string, nEach int) bool {
	up := s.gen(phase, "c2b", nEach)
	down := s.gen(phase, "b2c", nEach)
	for _, m := range append(append([]*msg{}, up...), down...) {
		m.order = len(s.sent)
		s.sent = append(s.sent, m)
	}
	var wg sync.WaitGroup
	var failed atomic.Bool
	for i, list := range [][]*msg{up, down} {
		wg.Add(1)
		go func() {
			defer wg.Done()
			dir := []string{"c2b", "b2c"}[i]
			for _, m := range list {
				if err := s.sender(dir).SendPlugin(m.Channel, m.data); err != nil {
					s.r.Inconclusive(fmt.Sprintf("session %d (protocol %d): send of %s %s %s (%d bytes on %s) failed: %v; client kicked: %q; %s", s.n, s.pv, m.Phase, m.Dir, m.Kind, m.Size, m.Channel, err, e2e.ReasonText(s.c.Kicked()), s.tails()))
					failed.Store(true)
					return
				}
			}
		}()
	}
	wg.Wait()
	if failed.Load() {
		return false
	}
	return s.barrier(phase, "c2b", "b2c")
}

func equalNames(ev []string, bodyNames []string) bool {
	if len(ev) != len(bodyNames) {
		return false
	}
	a := append([]string(nil), ev...)
	b := append([]string(nil), bodyNames...)
	sort.Strings(a)
	sort.Strings(b)
	for i := range a {
		if a[i] != b[i] && a[i] != "minecraft:"+b[i] {
			return false
		}
	}
	return true
}

func (s *session) judge() {
	r := s.r
	s.rec.mu.Lock()
	events := append([]evRec(nil), s.rec.events...)
	regs := append([][]string(nil), s.rec.regs...)
	unregs := append([][]string(nil), s.rec.unregs...)
	s.rec.mu.Unlock()
	evByID := map[string][]evRec{}
	for _, e := range events {
		evByID[e.id] = append(evByID[e.id], e)
		if e.id == "" {
			// every channel with a registrar entry is ours and every body sent on one carries a
			// token (empty bodies are joined by their per-message channel): Data() that carries
			// none equals no body that was sent
			r.Violation("plugin-message-event:data-unattributable", fmt.Sprintf("protocol %d: a PluginMessageEvent on %s exposes %d bytes that are not the body of any message sent on that channel", s.pv, e.ident, len(e.data)),
				map[string]any{"case": s.desc, "event_identifier": e.ident, "event_data": short(e.data), "endpoints": e.src + "->" + e.dst})
		}
	}
	delivered := func(m *msg) []e2e.PluginRec {
		var out []e2e.PluginRec
		for _, p := range s.receiver(m.Dir).PluginMessages() {
			switch m.Kind {
			case "register", "unregister":
				if (strings.EqualFold(p.Channel, "minecraft:register") || strings.EqualFold(p.Channel, "REGISTER") ||
					strings.EqualFold(p.Channel, "minecraft:unregister") || strings.EqualFold(p.Channel, "UNREGISTER")) &&
					(strings.Contains(strings.ToLower(p.Channel), "unregister") == (m.Kind == "unregister")) &&
					bytes.Equal(p.Data, m.data) && p.State.String() == wantState(m.Phase) {
					out = append(out, p)
				}
			default:
				if tokenOf(p.Data) == m.ID || (m.Size == 0 && p.Channel == m.Channel) {
					out = append(out, p)
				}
			}
		}
		return out
	}
	// F3 grace: an allowed message that has not arrived yet gets a generous watchdog before
	// its absence is looked at (only costs time when something is missing)
	deadline := time.Now().Add(e2e.Watchdog / 2) // one grace period per session
	if r.Violations() > 0 {
		deadline = time.Now().Add(200 * time.Millisecond) // a witness exists already: do not spend minutes on more
	}
	for _, m := range s.sent {
		if m.Kind == "custom-registered" && m.Decision == "allow" && len(evByID[m.ID]) > 0 {
			for len(delivered(m)) == 0 && time.Now().Before(deadline) {
				time.Sleep(2 * time.Millisecond)
			}
		}
	}
	// the last allowed message that arrived, per path, for F3
	lastArrived := map[string]int{}
	type row struct {
		m   *msg
		del []e2e.PluginRec
		evs []evRec
	}
	var rows []row
	for _, m := range s.sent {
		rw := row{m: m, del: delivered(m), evs: evByID[m.ID]}
		rows = append(rows, rw)
		if m.Kind == "custom-registered" && m.Decision == "allow" && len(rw.del) > 0 {
			lastArrived[m.Phase+m.Dir] = m.order
		}
	}
	emptyRegsForwarded, emptyRegEvents := 0, 0
	for _, ch := range regs {
		if len(ch) == 0 {
			emptyRegEvents++
		}
	}
	for _, rw := range rows {
		m := rw.m
		path := m.Phase + ":" + m.Dir
		w := map[string]any{"case": s.desc, "message": m, "body": short(m.data)}
		r.Eval(1)
		r.Count("messages_sent:"+path+":"+m.Kind, 1)
		r.Count("messages_delivered:"+path+":"+m.Kind, len(rw.del))
		r.Distinct(fmt.Sprintf("%d|%s|%s|%s|%s|%s|%s", s.pv, path, m.Kind, sizeClass(m.Size), m.Decision, s.regMode, legacyKind(m.Channel)))
		switch m.Kind {
		case "register":
			if len(rw.del) == 0 {
				r.Count("registers_not_forwarded", 1)
				continue
			}
			if len(m.Names) == 0 {
				emptyRegsForwarded++
				continue
			}
			var matching, related [][]string
			for _, ch := range regs {
				if equalNames(ch, m.Names) {
					matching = append(matching, ch)
				} else if namesOf(ch, m.ID) {
					related = append(related, ch)
				}
			}
			w["register_events_for_this_body"] = len(matching)
			w["register_events_with_other_channel_lists"] = related
			w["forwarded_copies_seen_by_backend"] = len(rw.del)
			if m.Phase == "config" {
				// latitude: 0 or 1 accepted in configuration
				r.Count(fmt.Sprintf("config_phase_registers_forwarded_with_%d_events", len(matching)+len(related)), 1)
				if len(matching)+len(related) > 1 {
					r.Violation("register-event:config:multiple", "a register message forwarded in configuration raised more than one PlayerChannelRegisterEvent", w)
				}
				continue
			}
			switch {
			case len(matching) == 0 && len(related) == 0:
				r.Violation("register-event:play:none-for-forwarded-register", fmt.Sprintf("protocol %d: the client's %s (%d channels) reached the backend but no PlayerChannelRegisterEvent was fired", s.pv, m.Channel, len(m.Names)), w)
			case len(matching)+len(related) > 1:
				r.Violation("register-event:play:multiple", fmt.Sprintf("a forwarded register raised %d PlayerChannelRegisterEvents", len(matching)+len(related)), w)
			case len(matching) == 0:
				r.Violation("register-event:play:channels-differ", fmt.Sprintf("the PlayerChannelRegisterEvent lists %q, the forwarded body names %q", related[0], m.Names), w)
			default:
				r.Count("registers_forwarded_with_exactly_one_event", 1)
			}
		case "unregister":
			n := 0
			for _, ch := range unregs {
				if equalNames(ch, m.Names) {
					n++
				}
			}
			r.Count(fmt.Sprintf("unregisters_with_%d_events(diagnostic)", min(n, 2)), 1)
		case "custom-unregistered":
			if len(rw.evs) > 0 {
				r.Count("events_for_channel_without_registrar_entry(diagnostic)", 1)
			}
		case "custom-registered":
			if len(rw.evs) == 0 {
				r.Count("registered_channel_message_without_event:"+path+"(diagnostic)", 1)
				continue
			}
			if len(rw.evs) > 1 {
				r.Count("messages_with_more_than_one_event(diagnostic)", 1)
			}
			r.Count("plugin_message_events:"+path, len(rw.evs))
			r.Count("event_endpoints:"+path+":"+rw.evs[0].src+"->"+rw.evs[0].dst, 1)
			for _, e := range rw.evs {
				w["event_data"] = short(e.data)
				w["event_identifier"] = e.ident
				// D
				if !bytes.Equal(e.data, m.data) {
					how := howDiffers(e.data, m.data, m.Channel)
					r.Violation("plugin-message-event:"+path+":data-"+how, fmt.Sprintf("protocol %d %s: PluginMessageEvent.Data() is %d bytes, the plugin message body is %d bytes", s.pv, path, len(e.data), len(m.data)), w)
				} else {
					r.Count("event_data_equal_body:"+path, 1)
				}
			}
			e := rw.evs[0]
			if len(rw.del) > 0 {
				w["delivered"] = short(rw.del[0].Data)
			}
			switch {
			case len(rw.del) > 0 && m.Decision == "deny":
				r.Violation("forwarded-although-denied:"+path, "the handler called SetForward(false) but the message reached the other side", w)
			case len(rw.del) > 0 && !bytes.Equal(rw.del[0].Data, e.data):
				// F1
				r.Violation("forwarded-differs-from-event-data:"+path, fmt.Sprintf("protocol %d %s: the handler saw %d bytes, %d bytes were forwarded", s.pv, path, len(e.data), len(rw.del[0].Data)), w)
			case len(rw.del) == 0 && m.Decision == "allow":
				if lastArrived[m.Phase+m.Dir] > m.order {
					r.Violation("allowed-not-forwarded:"+path, "the handler called SetForward(true), later messages of the same path arrived, this one did not", w)
				} else {
					r.Inconclusive(fmt.Sprintf("session %d: allowed message %s not seen and no later one either", s.n, m.ID))
				}
			case len(rw.del) > 0:
				r.Count("forwarded_equal_event_data:"+path+":"+m.Decision, 1)
			case m.Decision == "deny":
				r.Count("denied_and_not_forwarded:"+path, 1)
			default:
				r.Count("default_decision_not_forwarded:"+path+"(diagnostic)", 1)
			}
			if len(rw.del) > 1 {
				r.Count("delivered_more_than_once(diagnostic):"+path, 1)
			}
		}
	}
	if emptyRegsForwarded > 0 {
		// join on "empty channel list": n forwarded empty registers need n such events
		if emptyRegEvents == emptyRegsForwarded {
			r.Count("empty_registers_forwarded_with_exactly_one_event", emptyRegsForwarded)
		} else if playEmpty := s.countEmptyPlayRegisters(); playEmpty > 0 && emptyRegEvents < playEmpty {
			r.Violation("register-event:play:none-for-forwarded-register", fmt.Sprintf("%d empty register messages were forwarded in play, %d events with an empty channel list were fired", playEmpty, emptyRegEvents), map[string]any{"case": s.desc})
		} else if emptyRegEvents > emptyRegsForwarded {
			r.Violation("register-event:play:multiple", fmt.Sprintf("%d empty register messages were forwarded, %d events with an empty channel list were fired", emptyRegsForwarded, emptyRegEvents), map[string]any{"case": s.desc})
		}
	}
	r.Count("register_events_recorded", len(regs))
	r.Count("unregister_events_recorded", len(unregs))
	r.Count("plugin_message_events_recorded", len(events))
}

func (s *session) countEmptyPlayRegisters() int {
	n := 0
	for _, m := range s.sent {
		if m.Kind == "register" && m.Phase == "play" && len(m.Names) == 0 {
			n++
		}
	}
	return n
}

// namesOf reports whether an event's channel list names a channel generated for the
// register message id (c25:<id><letter> resp. c25<id><letter>, possibly with the
// "minecraft:" prefix Gate adds below 1.13).
func namesOf(ch []string, id string) bool {
	for _, c := range ch {
		c = strings.TrimPrefix(c, "minecraft:")
		c = strings.TrimPrefix(strings.TrimPrefix(c, "c25"), ":")
		if len(c) == len(id)+1 && strings.HasPrefix(c, id) {
			return true
		}
	}
	return false
}

func (s *session) tails() string {
	f := func(p *e2e.Peer) string {
		l := p.Log()
		if len(l) > 4 {
			l = l[len(l)-4:]
		}
		out := fmt.Sprintf("eof=%v last:", p.EOF())
		for _, r := range l {
			out += " [" + r.String() + "]"
		}
		return out
	}
	return "client " + f(s.c.Peer) + "; backend " + f(s.gc.Peer)
}

func legacyKind(ch string) string {
	if strings.Contains(ch, ":") {
		return "modern-name"
	}
	return "legacy-name"
}

func wantState(phase string) string {
	if phase == "config" {
		return states.ConfigState.String()
	}
	return states.PlayState.String()
}

func TestC25(t *testing.T) {
	r := lib.Start(t, "C25")
	defer r.Finish()
	r.Rule("one case = one plugin message through a live proxy session; a session = (protocol from {340,754,763,764,767,775}, registrar contents from {modern+legacy, modern only, none}) x phases {config (>=764), play} x directions {client->backend, backend->client}; per message: kind {custom on registrar channel, custom on free channel, register, unregister}, size {0,1,13,40,200,2000,32767,70000 (clientbound)}, modern/legacy channel name, handler decision {allow, deny, default}; distinct = (protocol, phase, direction, kind, size class, decision, registrar, name style)")
	r.Assume("the fake peers frame with the harness's own codec and decode plugin message packets with Gate's packet structs; joining is by a unique token in the body (or in a per-message channel for empty bodies); completeness by markers + event.Manager.Wait(), see file comment")
	rng := r.Rng("sessions")
	sessions := r.N(360, 9000)
	per := r.N(10, 12)
	protos := []proto.Protocol{340, 754, 763, 764, 767, 775}
	modes := []string{"both", "modern", "none", "both"}
	for n := 0; n < sessions; n++ {
		pv := protos[n%len(protos)]
		if rng.Intn(5) == 0 {
			pv = []proto.Protocol{47, 393, 758, 765, 766, 770, 776}[rng.Intn(7)]
		}
		s := &session{n: n, pv: pv, regMode: modes[rng.Intn(len(modes))], r: r, rng: r.Rng(fmt.Sprintf("s%d", n)),
			rec: &recorder{decisions: map[string]string{}, chanTok: map[string]string{}}}
		s.desc = map[string]any{"session": n, "protocol": int(pv), "registrar": s.regMode}
		r.LogCase(s.desc)
		ok, _ := lib.Returns(6*e2e.Watchdog, func() { s.run(per) })
		if !ok {
			dump := lib.Goroutines()
			where := ""
			for _, blk := range lib.GoroutineBlocks(dump) {
				if strings.Contains(blk, "c25.(*session).run") {
					where = lib.Trunc(blk, 1500)
				}
			}
			r.Inconclusive(fmt.Sprintf("session %d: did not finish within the watchdog; session goroutine: %s", n, where))
		}
		if s.c != nil {
			s.c.Close()
		}
	}
	r.Set("sessions", sessions)
}

func (s *session) run(per int) {
	r := s.r
	h, err := e2e.New(e2e.Options{})
	if err != nil {
		r.T.Fatal(err)
	}
	s.h = h
	event.Subscribe(h.Ev, 0, s.rec.onPluginMessage)
	event.Subscribe(h.Ev, 0, func(e *proxy.PlayerChannelRegisterEvent) {
		s.rec.mu.Lock()
		s.rec.regs = append(s.rec.regs, idsOf(e.Channels()))
		s.rec.mu.Unlock()
	})
	event.Subscribe(h.Ev, 0, func(e *proxy.PlayerChannelUnregisterEvent) {
		s.rec.mu.Lock()
		s.rec.unregs = append(s.rec.unregs, idsOf(e.Channels()))
		s.rec.mu.Unlock()
	})
	if s.regMode != "none" {
		id, _ := message.ChannelIdentifierFrom(chModern)
		h.P.ChannelRegistrar().Register(id)
	}
	if s.regMode == "both" {
		l := message.LegacyChannelIdentifier(chLegacy)
		h.P.ChannelRegistrar().Register(&l)
	}
	hold := []e2e.Stage{}
	if s.pv >= 764 {
		hold = append(hold, e2e.StageConfig, e2e.StageJoin)
	}
	b, err := h.AddGatedBackend("one", hold...)
	if err != nil {
		r.T.Fatal(err)
	}
	h.Cfg.Try = []string{"one"}
	name := fmt.Sprintf("P%d", s.n)
	s.c = h.NewClient(e2e.ClientOpts{Protocol: s.pv})
	_ = s.c.Handshake("example.com", 25565, 2)
	_ = s.c.LoginStart(name)
	s.gc = b.AwaitConn(0, e2e.Watchdog)
	if s.gc == nil {
		r.Inconclusive(fmt.Sprintf("session %d: the proxy never dialled the backend", s.n))
		return
	}
	if s.pv >= 764 {
		if !s.gc.AwaitStage(e2e.StageConfig, e2e.Watchdog) || !s.c.AwaitWriteState(states.ConfigState, e2e.Watchdog) {
			r.Inconclusive(fmt.Sprintf("session %d: configuration not reached (kicked: %q, closed: %v)", s.n, e2e.ReasonText(s.c.Kicked()), s.c.EOF()))
			return
		}
		// pre-roll: once a client message arrived, the early-message queue has been flushed
		// and later config messages take the direct/event path
		if !s.barrier("config-preroll", "c2b") {
			return
		}
		if !s.runPhase("config", per) {
			return
		}
		s.gc.Release(e2e.StageConfig)
		// Stimulus, not a verdict: a backend that answers the proxy's FinishedUpdate with
		// JoinGame within microseconds can overtake the proxy installing/activating its
		// backendTransitionSessionHandler (JoinGame is then relayed raw by the configuration
		// handler and the join never completes, or the handler's Deactivated runs before its
		// Activated and the backend is disconnected right after the join). That race is outside
		// this property (and was repaired meanwhile by "install the transition handler before
		// acknowledging the backend's configuration"); a real backend is at least a network
		// round trip away, so the fake one waits a moment before JoinGame.
		if s.gc.AwaitStage(e2e.StageJoin, e2e.Watchdog) {
			time.Sleep(3 * time.Millisecond)
		}
		s.gc.Release(e2e.StageJoin)
	}
	if res := s.c.AwaitJoin(e2e.Watchdog); !res.Joined {
		r.Inconclusive(fmt.Sprintf("session %d: join did not complete: %+v %s", s.n, res, e2e.ReasonText(res.Kicked)))
		return
	}
	if !h.AwaitCurrentServer(name, "one", e2e.Watchdog) {
		if d := os.Getenv("C25_DEBUG_DUMP"); d != "" {
			_ = os.WriteFile(fmt.Sprintf("%s/stall-%d.txt", d, s.n), []byte(lib.Goroutines()), 0o644)
		}
		r.Inconclusive(fmt.Sprintf("session %d (protocol %d): proxy never reported the player on its server; %s", s.n, s.pv, s.tails()))
		return
	}
	if !s.runPhase("play", per) {
		return
	}
	s.judge()
	if r.WantSample() {
		var ms []*msg
		for i, m := range s.sent {
			if i < 6 {
				ms = append(ms, m)
			}
		}
		r.Sample(map[string]any{"case": s.desc, "first_messages": ms})
	}
	_ = time.Now
}
