// Package c33 holds the monitor for property C33 (PROXY protocol trust). This file is the
// reference: a hand-written strict parser for IP / CIDR text and bitwise prefix membership.
// It uses neither net/netip nor net parsing, and no Gate code.
package c33

import "strings"

// ipVal is a parsed address: Len 4 or 16 significant bytes.
type ipVal struct {
	B    [16]byte
	Len  int
	Zone string
}

func (a ipVal) mapped() bool {
	if a.Len != 16 {
		return false
	}
	for i := 0; i < 10; i++ {
		if a.B[i] != 0 {
			return false
		}
	}
	return a.B[10] == 0xff && a.B[11] == 0xff
}

// norm is the normalisation of the statement: IPv4-mapped IPv6 becomes IPv4, the zone is dropped.
func (a ipVal) norm() ipVal {
	if a.mapped() {
		var o ipVal
		copy(o.B[:4], a.B[12:16])
		o.Len = 4
		return o
	}
	a.Zone = ""
	return a
}

func parseDec(s string, max int) (int, bool, bool) { // value, ok, hadLeadingZero
	if len(s) == 0 || len(s) > 3 {
		return 0, false, false
	}
	v := 0
	for _, c := range []byte(s) {
		if c < '0' || c > '9' {
			return 0, false, false
		}
		v = v*10 + int(c-'0')
	}
	if v > max {
		return 0, false, false
	}
	return v, true, len(s) > 1 && s[0] == '0'
}

func parseV4(s string) (out [4]byte, ok bool) {
	f := strings.Split(s, ".")
	if len(f) != 4 {
		return out, false
	}
	for i, x := range f {
		v, ok, lead := parseDec(x, 255)
		if !ok || lead {
			return out, false
		}
		out[i] = byte(v)
	}
	return out, true
}

func parseHexGroup(s string) (uint16, bool) {
	if len(s) == 0 || len(s) > 4 {
		return 0, false
	}
	var v uint16
	for _, c := range []byte(s) {
		var d byte
		switch {
		case c >= '0' && c <= '9':
			d = c - '0'
		case c >= 'a' && c <= 'f':
			d = c - 'a' + 10
		case c >= 'A' && c <= 'F':
			d = c - 'A' + 10
		default:
			return 0, false
		}
		v = v<<4 | uint16(d)
	}
	return v, true
}

// groups parses "a:b:c" (possibly with an embedded IPv4 as last element when last is true)
// into 16-bit groups.
func groups(s string, allowV4Tail bool) ([]uint16, bool) {
	if s == "" {
		return nil, true
	}
	f := strings.Split(s, ":")
	var out []uint16
	for i, x := range f {
		if allowV4Tail && i == len(f)-1 && strings.Contains(x, ".") {
			v4, ok := parseV4(x)
			if !ok {
				return nil, false
			}
			out = append(out, uint16(v4[0])<<8|uint16(v4[1]), uint16(v4[2])<<8|uint16(v4[3]))
			continue
		}
		g, ok := parseHexGroup(x)
		if !ok {
			return nil, false
		}
		out = append(out, g)
	}
	return out, true
}

func parseV6(s string) (out [16]byte, ok bool) {
	var gs []uint16
	if i := strings.Index(s, "::"); i >= 0 {
		if strings.Contains(s[i+2:], "::") {
			return out, false
		}
		left, ok1 := groups(s[:i], false)
		right, ok2 := groups(s[i+2:], true)
		if !ok1 || !ok2 || len(left)+len(right) > 7 {
			return out, false
		}
		gs = append(gs, left...)
		gs = append(gs, make([]uint16, 8-len(left)-len(right))...)
		gs = append(gs, right...)
	} else {
		var ok1 bool
		gs, ok1 = groups(s, true)
		if !ok1 || len(gs) != 8 {
			return out, false
		}
	}
	for i, g := range gs {
		out[2*i], out[2*i+1] = byte(g>>8), byte(g)
	}
	return out, true
}

// parseIP parses an IP literal; a "%zone" suffix is allowed on IPv6 literals and reported.
func parseIP(s string) (ipVal, bool) {
	if v4, ok := parseV4(s); ok {
		var a ipVal
		copy(a.B[:4], v4[:])
		a.Len = 4
		return a, true
	}
	zone := ""
	if i := strings.IndexByte(s, '%'); i >= 0 {
		zone = s[i+1:]
		s = s[:i]
		if zone == "" {
			return ipVal{}, false
		}
	}
	if v6, ok := parseV6(s); ok {
		return ipVal{B: v6, Len: 16, Zone: zone}, true
	}
	return ipVal{}, false
}

// verdict of the reference on one trusted-list entry
const (
	entryValid    = "valid"    // must be accepted, as prefix (Addr masked, Bits)
	entryInvalid  = "invalid"  // must be rejected
	entryMapped   = "mapped"   // IPv4-mapped form: must be rejected
	entryLatitude = "latitude" // zone, surrounding white space, leading zeros in the prefix length: no verdict
)

type prefixVal struct {
	Addr ipVal // masked, normalised
	Bits int
}

func maskBits(a ipVal, bits int) ipVal {
	for i := 0; i < a.Len; i++ {
		switch {
		case bits >= 8*(i+1):
		case bits <= 8*i:
			a.B[i] = 0
		default:
			a.B[i] &= ^byte(0xff >> (bits - 8*i))
		}
	}
	return a
}

// refParseEntry judges one configured entry.
func refParseEntry(s string) (string, prefixVal) {
	if t := strings.TrimSpace(s); t != s {
		// Gate documents nothing about white space; trimming is a harmless convenience
		if k, _ := refParseEntry(t); k == entryValid || k == entryLatitude {
			return entryLatitude, prefixVal{}
		}
		return entryInvalid, prefixVal{}
	}
	ipPart, bitsPart, isCIDR := s, "", false
	if i := strings.IndexByte(s, '/'); i >= 0 {
		ipPart, bitsPart, isCIDR = s[:i], s[i+1:], true
	}
	a, ok := parseIP(ipPart)
	if !ok {
		return entryInvalid, prefixVal{}
	}
	bits := 8 * a.Len
	lat := false
	if isCIDR {
		v, ok, lead := parseDec(bitsPart, 8*a.Len)
		if !ok {
			return entryInvalid, prefixVal{}
		}
		bits, lat = v, lead
	}
	if a.mapped() {
		return entryMapped, prefixVal{}
	}
	if a.Zone != "" {
		if isCIDR {
			return entryInvalid, prefixVal{} // a zoned network is meaningless; both Go parsers reject it
		}
		return entryLatitude, prefixVal{}
	}
	if lat {
		return entryLatitude, prefixVal{}
	}
	return entryValid, prefixVal{Addr: maskBits(a, bits), Bits: bits}
}

func (p prefixVal) contains(a ipVal) bool {
	a = a.norm()
	if a.Len != p.Addr.Len {
		return false
	}
	return maskBits(a, p.Bits).B == p.Addr.B
}

func refContains(ps []prefixVal, a ipVal) bool {
	for _, p := range ps {
		if p.contains(a) {
			return true
		}
	}
	return false
}
