// C33: PROXY protocol headers are honoured only from trusted upstreams.
//
// Part 1 (no hook): netutil.ParseTrustedNetworks / Contains / ContainsStr against the
// hand-written reference of ref.go (strict text grammar, IPv4-mapped unmapping, zone stripping,
// bitwise membership): an exhaustive small prefix lattice around chosen addresses x peers on
// both sides of every prefix boundary in v4 / mapped / v6 / zoned / non-IP forms, entry texts
// of every valid and invalid class, plus random lists, peers and mutated texts.
//
// Part 2 (verif_hooks_c33.go exposes the unexported wrapper): the real
// newProxyProtocol(cfg).wrapConn / wrapConnTimeout over lib.Pipe connections with arbitrary
// RemoteAddr, inside a testing/synctest bubble so that the header read timeout is decided by
// virtual time. Observed: RemoteAddr() after wrapping, the bytes and error the reader gets.
package c33

import (
	"encoding/binary"
	"errors"
	"fmt"
	"io"
	"math/rand"
	"net"
	"net/netip"
	"strings"
	"testing"
	"testing/synctest"
	"time"

	"go.minekube.com/gate/pkg/edition/java/config"
	"go.minekube.com/gate/pkg/edition/java/proxy"
	"go.minekube.com/gate/pkg/edition/java/proxy/verifh/lib"
	"go.minekube.com/gate/pkg/util/netutil"
)

// ---- formatting helpers (independent text forms of an address) ---------------------------------

func fmtV4(b []byte) string { return fmt.Sprintf("%d.%d.%d.%d", b[0], b[1], b[2], b[3]) }

// fmtV6 renders 16 bytes in one of several valid textual forms.
func fmtV6(b [16]byte, form int) string {
	g := make([]string, 8)
	for i := range g {
		v := uint16(b[2*i])<<8 | uint16(b[2*i+1])
		switch form % 3 {
		case 0:
			g[i] = fmt.Sprintf("%x", v)
		case 1:
			g[i] = fmt.Sprintf("%04X", v)
		default:
			g[i] = fmt.Sprintf("%x", v)
		}
	}
	full := strings.Join(g, ":")
	switch form {
	case 0, 1:
		return full
	case 2: // compress the first run of zero groups, if any
		for i := 0; i < 8; i++ {
			if g[i] != "0" {
				continue
			}
			j := i
			for j < 8 && g[j] == "0" {
				j++
			}
			return strings.Join(g[:i], ":") + "::" + strings.Join(g[j:], ":")
		}
		return full
	case 3: // embedded IPv4 tail
		return strings.Join(g[:6], ":") + ":" + fmtV4(b[12:16])
	default: // compressed + IPv4 tail when the first six groups start with zeros
		for i := 0; i < 6; i++ {
			if g[i] != "0" {
				continue
			}
			j := i
			for j < 6 && g[j] == "0" {
				j++
			}
			tail := fmtV4(b[12:16])
			if j < 6 {
				tail = strings.Join(g[j:6], ":") + ":" + tail
			}
			return strings.Join(g[:i], ":") + "::" + tail
		}
		return strings.Join(g[:6], ":") + ":" + fmtV4(b[12:16])
	}
}

func v4(a, b, c, d byte) ipVal { return ipVal{B: [16]byte{a, b, c, d}, Len: 4} }
func v6(s string) ipVal {
	a, ok := parseIP(s)
	if !ok || a.Len != 16 {
		panic(s)
	}
	return a
}
func mappedOf(a ipVal) ipVal {
	var o ipVal
	o.Len = 16
	o.B[10], o.B[11] = 0xff, 0xff
	copy(o.B[12:], a.B[:4])
	return o
}
func flipBit(a ipVal, bit int) ipVal {
	a.B[bit/8] ^= 0x80 >> (bit % 8)
	return a
}
func (a ipVal) text() string {
	if a.Len == 4 {
		return fmtV4(a.B[:4])
	}
	s := fmtV6(a.B, 2)
	if a.mapped() {
		s = "::ffff:" + fmtV4(a.B[12:16])
	}
	if a.Zone != "" {
		s += "%" + a.Zone
	}
	return s
}

// peerForms returns net.Addr forms of one peer IP plus the host string forms for ContainsStr.
func peerForms(a ipVal, rng *rand.Rand) (addrs []net.Addr, hosts []string) {
	port := 1024 + rng.Intn(60000)
	if a.Len == 4 {
		addrs = append(addrs,
			&net.TCPAddr{IP: net.IP(append([]byte(nil), a.B[:4]...)), Port: port},
			&net.TCPAddr{IP: net.IPv4(a.B[0], a.B[1], a.B[2], a.B[3]), Port: port}, // 16-byte form, as dual-stack listeners report
			lib.Addr{Net: "tcp", Str: fmt.Sprintf("%s:%d", a.text(), port)},
			lib.Addr{Net: "tcp", Str: fmt.Sprintf("[::ffff:%s]:%d", a.text(), port)},
			lib.Addr{Net: "ip", Str: a.text()},
			&net.UDPAddr{IP: net.IP(append([]byte(nil), a.B[:4]...)), Port: port},
		)
		hosts = append(hosts, a.text(), "::ffff:"+a.text(), fmtV6(mappedOf(a).B, 0), fmtV6(mappedOf(a).B, 1))
		return
	}
	ip := net.IP(append([]byte(nil), a.B[:]...))
	addrs = append(addrs,
		&net.TCPAddr{IP: ip, Port: port, Zone: a.Zone},
		lib.Addr{Net: "tcp", Str: fmt.Sprintf("[%s]:%d", a.text(), port)},
		lib.Addr{Net: "ip6", Str: a.text()}, // no port: "too many colons"
	)
	z := ""
	if a.Zone != "" {
		z = "%" + a.Zone
	}
	hosts = append(hosts, a.text(), fmtV6(a.B, 0)+z, fmtV6(a.B, 1)+z)
	if !a.mapped() {
		addrs = append(addrs, &net.TCPAddr{IP: ip, Port: port, Zone: "eth0"})
		hosts = append(hosts, fmtV6(a.B, 2)+"%eth0")
	}
	return
}

var nonIPPeers = []net.Addr{
	lib.Addr{Net: "pipe", Str: "pipe"}, lib.Addr{Net: "unix", Str: "/run/gate.sock"}, lib.Addr{Net: "unix", Str: "@"},
	lib.Addr{Net: "unix", Str: ""}, lib.Addr{Net: "tcp", Str: "localhost:25565"}, lib.Addr{Net: "tcp", Str: "example.com:80"},
	lib.Addr{Net: "bufconn", Str: "bufconn"}, lib.Addr{Net: "tcp", Str: ":25565"}, lib.Addr{Net: "tcp", Str: "256.1.1.1:80"},
	lib.Addr{Net: "tcp", Str: "010.0.0.1:80"}, lib.Addr{Net: "tcp", Str: "[10.0.0.1"}, &net.UnixAddr{Name: "/tmp/s", Net: "unix"},
	&net.TCPAddr{}, nil,
}

// ---- Part 1 helpers ----------------------------------------------------------------------------

type listCase struct {
	Entries []string
	Ref     []prefixVal
}

func prefixText(a ipVal, bits int, form int) string {
	s := a.text()
	if a.Len == 16 {
		s = fmtV6(a.B, form%5)
	}
	if bits < 0 {
		return s
	}
	return fmt.Sprintf("%s/%d", s, bits)
}

func gotPrefix(p netip.Prefix) prefixVal {
	var v prefixVal
	v.Bits = p.Bits()
	sl := p.Addr().AsSlice()
	copy(v.Addr.B[:], sl)
	v.Addr.Len = len(sl)
	return v
}

func checkParse(r *lib.Run, entries []string) (netutil.TrustedNetworks, []prefixVal, bool) {
	got, err := netutil.ParseTrustedNetworks(entries)
	var ref []prefixVal
	refErr, latitude := "", false
	for _, e := range entries {
		k, p := refParseEntry(e)
		switch k {
		case entryValid:
			ref = append(ref, p)
		case entryLatitude:
			latitude = true
		default:
			if refErr == "" {
				refErr = k + ":" + e
			}
		}
	}
	if latitude {
		r.Count("parse_lists_with_latitude_entries", 1)
		return got, nil, false
	}
	w := map[string]any{"entries": entries, "gate_result": fmt.Sprint(got), "gate_err": fmt.Sprint(err)}
	if refErr != "" {
		if err == nil {
			sig := "parse-accepts-invalid-entry"
			if strings.HasPrefix(refErr, entryMapped) {
				sig = "parse-accepts-ipv4-mapped-entry"
			}
			r.Violation(sig, fmt.Sprintf("ParseTrustedNetworks accepted a list containing %q", refErr), w)
		} else {
			r.Count("parse_rejections_confirmed", 1)
		}
		return got, nil, false
	}
	if err != nil {
		r.Violation("parse-rejects-valid-entry", "ParseTrustedNetworks rejected a list of valid IPs/CIDRs: "+err.Error(), w)
		return got, nil, false
	}
	if len(got) != len(ref) {
		r.Violation("parse-wrong-entry-count", fmt.Sprintf("%d networks parsed from %d entries", len(got), len(ref)), w)
		return got, nil, false
	}
	for i := range ref {
		// representation-neutral: host bits Gate may have kept are masked off before comparing
		g := gotPrefix(got[i])
		if g.Bits >= 0 && g.Bits <= 8*g.Addr.Len {
			g.Addr = maskBits(g.Addr, g.Bits)
		}
		if g != ref[i] {
			r.Violation("parse-wrong-prefix", fmt.Sprintf("entry %q parsed as %v, reference %x/%d", entries[i], got[i], ref[i].Addr.B[:ref[i].Addr.Len], ref[i].Bits), w)
			return got, nil, false
		}
	}
	r.Count("parse_acceptances_confirmed", 1)
	return got, ref, true
}

func checkContains(r *lib.Run, tn netutil.TrustedNetworks, ref []prefixVal, entries []string, peer ipVal, isIP bool, addr net.Addr, host string, useHost bool) {
	want := isIP && refContains(ref, peer)
	var got bool
	var how string
	if useHost {
		got, how = tn.ContainsStr(host), fmt.Sprintf("ContainsStr(%q)", host)
	} else {
		got = tn.Contains(addr)
		how = fmt.Sprintf("Contains(%T %v)", addr, addr)
	}
	r.Eval(1)
	if want {
		r.Count("membership_true", 1)
	} else {
		r.Count("membership_false", 1)
	}
	if got == want {
		return
	}
	sig := "contains-"
	switch {
	case !isIP:
		sig += "trusts-non-ip-address"
	case peer.mapped() && !got:
		sig += "misses-ipv4-mapped-peer"
	case peer.mapped() && got:
		sig += "trusts-ipv4-mapped-peer-outside"
	case peer.Zone != "" && !got:
		sig += "misses-zoned-peer"
	case got:
		sig += "trusts-address-outside-networks"
	default:
		sig += "misses-address-inside-networks"
	}
	r.Violation(sig, fmt.Sprintf("%s = %v on %v, reference membership %v", how, got, entries, want), map[string]any{"trusted": entries, "peer": peer.text(), "call": how, "got": got, "want": want})
}

// ---- Part 2 helpers: PROXY headers built by hand -------------------------------------------------

type hdrSpec struct {
	Kind    string // v1-tcp4, v1-tcp6, v2-tcp4, v2-tcp6, v2-local, v1-unknown
	SrcText string // expected RemoteAddr().String() when honoured ("" = keeps peer address)
	Bytes   []byte
}

func buildHeader(rng *rand.Rand, kind string) hdrSpec {
	s4 := [4]byte{198, 51, 100, byte(1 + rng.Intn(250))}
	d4 := [4]byte{203, 0, 113, 1}
	var s6, d6 [16]byte
	copy(s6[:], []byte{0x20, 0x01, 0x0d, 0xb8, 0, 0, 0, 0, 0, 0, 0, 0, 0, 0, 0, byte(1 + rng.Intn(250))})
	copy(d6[:], []byte{0x20, 0x01, 0x0d, 0xb8, 0, 1, 0, 0, 0, 0, 0, 0, 0, 0, 0, 1})
	sp, dp := uint16(1024+rng.Intn(60000)), uint16(25565)
	sig := []byte("\r\n\r\n\x00\r\nQUIT\n")
	h := hdrSpec{Kind: kind}
	switch kind {
	case "v1-tcp4":
		h.Bytes = []byte(fmt.Sprintf("PROXY TCP4 %s %s %d %d\r\n", fmtV4(s4[:]), fmtV4(d4[:]), sp, dp))
		h.SrcText = fmt.Sprintf("%s:%d", fmtV4(s4[:]), sp)
	case "v1-tcp6":
		h.Bytes = []byte(fmt.Sprintf("PROXY TCP6 %s %s %d %d\r\n", fmtV6(s6, 2), fmtV6(d6, 2), sp, dp))
		h.SrcText = fmt.Sprintf("[%s]:%d", fmtV6(s6, 2), sp)
	case "v1-unknown":
		h.Bytes = []byte("PROXY UNKNOWN\r\n")
	case "v2-tcp4":
		b := append(append([]byte{}, sig...), 0x21, 0x11, 0, 12)
		b = append(b, s4[:]...)
		b = append(b, d4[:]...)
		b = binary.BigEndian.AppendUint16(b, sp)
		b = binary.BigEndian.AppendUint16(b, dp)
		h.Bytes, h.SrcText = b, fmt.Sprintf("%s:%d", fmtV4(s4[:]), sp)
	case "v2-tcp6":
		b := append(append([]byte{}, sig...), 0x21, 0x21, 0, 36)
		b = append(b, s6[:]...)
		b = append(b, d6[:]...)
		b = binary.BigEndian.AppendUint16(b, sp)
		b = binary.BigEndian.AppendUint16(b, dp)
		h.Bytes, h.SrcText = b, fmt.Sprintf("[%s]:%d", fmtV6(s6, 2), sp)
	case "v2-local":
		h.Bytes = append(append([]byte{}, sig...), 0x20, 0x00, 0, 0)
	}
	return h
}

// mcHandshake are the first bytes a Minecraft client sends (length-prefixed handshake + login start).
func mcHandshake(rng *rand.Rand) []byte {
	host := []string{"play.example.org", "localhost", "mc.example.com"}[rng.Intn(3)]
	body := []byte{0x00, 0xfd, 0x05, byte(len(host))}
	body = append(body, host...)
	body = append(body, 0x63, 0xdd, 0x02)
	out := append([]byte{byte(len(body))}, body...)
	tail := make([]byte, rng.Intn(64))
	rng.Read(tail)
	return append(out, tail...)
}

type wireCase struct {
	Trusted     []string `json:"trusted"`
	NilWrapper  bool     `json:"nil_wrapper"`
	Peer        string   `json:"peer"`
	PeerType    string   `json:"peer_type"`
	First       string   `json:"first_bytes"`
	Chunked     bool     `json:"chunked"`
	ReadFirst   bool     `json:"read_before_remoteaddr"`
	DefaultTO   bool     `json:"default_timeout"`
	LateBytes   bool     `json:"bytes_after_timeout"`
	PeerTrusted bool     `json:"peer_trusted_by_reference"`
}

type wireObs struct {
	Returned      bool
	RemoteAddr    string
	SameAddrObj   bool
	Data          []byte
	Err           error
	ElapsedToAddr time.Duration
}

const hdrTimeout = 3 * time.Second

// runWire executes one wrapped-connection scenario in a synctest bubble and returns what the
// server side observed.
func runWire(t *testing.T, c wireCase, peer net.Addr, script [][]byte, gaps []time.Duration) (obs wireObs, wrapErr error) {
	synctest.Test(t, func(t *testing.T) {
		srv, cli := lib.Pipe()
		srv.SetAddrs(&net.TCPAddr{IP: net.IPv4(203, 0, 113, 1), Port: 25565}, peer)
		cfg := &config.Config{ProxyProtocol: true, ProxyProtocolTrustedProxies: c.Trusted}
		to := hdrTimeout
		if c.DefaultTO {
			to = -1
		}
		w, _, err := proxy.VerifC33Wrap(cfg, srv, to, c.NilWrapper)
		if err != nil {
			wrapErr = err
			return
		}
		start := time.Now()
		go func() { // the client
			for i, b := range script {
				time.Sleep(gaps[i])
				if _, err := cli.Write(b); err != nil {
					return
				}
			}
			cli.CloseWrite()
		}()
		done := make(chan struct{})
		go func() { // the proxy side: what Gate's accept loop and read loop do
			defer close(done)
			if c.ReadFirst {
				buf := make([]byte, 7)
				n, err := w.Read(buf)
				obs.Data = append(obs.Data, buf[:n]...)
				if err != nil {
					obs.Err = err
				}
			}
			ra := w.RemoteAddr()
			obs.ElapsedToAddr = time.Since(start)
			if ra != nil {
				obs.RemoteAddr = ra.String()
			}
			obs.SameAddrObj = ra == peer
			if obs.Err == nil {
				rest, err := io.ReadAll(w)
				obs.Data = append(obs.Data, rest...)
				obs.Err = err
			}
		}()
		// virtual time: everything that can happen happens before this returns
		time.Sleep(time.Minute)
		synctest.Wait()
		select {
		case <-done:
			obs.Returned = true
		default:
		}
		_ = srv.Close()
		_ = cli.Close()
		<-done
	})
	return obs, wrapErr
}

func TestC33(t *testing.T) {
	r := lib.Start(t, "C33")
	defer r.Finish()
	r.Rule("part 1: (trusted list text, peer address form) pairs - exhaustive lattice of prefixes {/0,/8,/24,/32,bare} and {/0,/64,/128,bare} around 8 chosen addresses (single and paired entries) x peers on both sides of every boundary bit in v4, 16-byte v4, mapped, v6, zoned and non-IP forms through Contains and ContainsStr, entry texts of every valid/invalid/mapped class, random lists and peers, randomly mutated texts; part 2: (trusted list, peer, first bytes {PROXY v1 tcp4/tcp6/unknown, v2 tcp4/tcp6/local, Minecraft handshake, nothing, nothing then bytes after the header timeout, immediate EOF}, chunking, call order, default or explicit timeout, nil wrapper) on the real wrapper in a synctest bubble; distinct = distinct case description")
	r.Assume("reference grammar for IP/CIDR text and bitwise membership are hand-written (ref.go); zone on a bare IP entry, white space around an entry and leading zeros in a prefix length get no verdict")
	r.Assume("PROXY v1/v2 headers are built by hand from the haproxy spec; a LOCAL/UNKNOWN header carries no address, so a trusted peer keeps its own address")
	r.Assume("virtual time (testing/synctest) decides the header read timeout; lib.Pipe deadlines follow the bubble's clock")
	rng := r.Rng("part1")

	// ================= Part 1a: exhaustive prefix lattice ==========================================
	chosen4 := []ipVal{v4(10, 1, 2, 3), v4(192, 168, 0, 1), v4(127, 0, 0, 1), v4(203, 0, 113, 77)}
	chosen6 := []ipVal{v6("2001:db8::1"), v6("fe80::1"), v6("::1"), v6("fd00:aa:bb:cc::5")}
	var lattice []string
	for _, a := range chosen4 {
		for _, b := range []int{0, 8, 24, 32, -1} {
			lattice = append(lattice, prefixText(a, b, 0))
		}
	}
	for i, a := range chosen6 {
		for _, b := range []int{0, 64, 128, -1} {
			lattice = append(lattice, prefixText(a, b, 2+i%2*2))
		}
	}
	var peers []ipVal
	for _, a := range chosen4 {
		peers = append(peers, a)
		for _, bit := range []int{0, 6, 7, 8, 9, 22, 23, 24, 25, 30, 31} {
			p := flipBit(a, bit)
			peers = append(peers, p, mappedOf(p))
		}
		peers = append(peers, mappedOf(a))
	}
	for _, a := range chosen6 {
		peers = append(peers, a)
		for _, bit := range []int{0, 7, 62, 63, 64, 65, 126, 127} {
			peers = append(peers, flipBit(a, bit))
		}
		z := a
		z.Zone = "eth0"
		peers = append(peers, z)
	}
	var lists [][]string
	for i := range lattice {
		lists = append(lists, []string{lattice[i]})
	}
	for i := range lattice {
		for j := i + 1; j < len(lattice); j++ {
			lists = append(lists, []string{lattice[i], lattice[j]})
		}
	}
	lists = append(lists, nil, []string{})
	latticeDecisions := 0
	for _, entries := range lists {
		tn, ref, ok := checkParse(r, entries)
		if !ok && len(entries) > 0 {
			continue
		}
		r.Distinct("lattice/" + strings.Join(entries, ","))
		for pi, p := range peers {
			addrs, hosts := peerForms(p, rng)
			// rotate through the forms so that every (list, peer) pair is decided in two forms
			a := addrs[(pi+len(entries))%len(addrs)]
			checkContains(r, tn, ref, entries, p, true, a, "", false)
			h := hosts[(pi+len(entries))%len(hosts)]
			checkContains(r, tn, ref, entries, p, true, nil, h, true)
			latticeDecisions += 2
		}
	}
	r.Set("lattice_lists", len(lists))
	r.Set("lattice_peers", len(peers))
	r.Set("lattice_membership_decisions", latticeDecisions)
	// every form of every peer against a few lists, and non-IP peers
	for _, entries := range [][]string{{"0.0.0.0/0"}, {"::/0"}, {"0.0.0.0/0", "::/0"}, {"10.1.2.0/24", "2001:db8::/64", "127.0.0.1", "fe80::1"}, config.DefaultProxyProtocolTrustedProxies()} {
		tn, ref, ok := checkParse(r, entries)
		if !ok {
			continue
		}
		for _, p := range peers {
			addrs, hosts := peerForms(p, rng)
			for _, a := range addrs {
				checkContains(r, tn, ref, entries, p, true, a, "", false)
			}
			for _, h := range hosts {
				checkContains(r, tn, ref, entries, p, true, nil, h, true)
			}
		}
		for _, a := range nonIPPeers {
			checkContains(r, tn, ref, entries, ipVal{}, false, a, "", false)
			r.Distinct(fmt.Sprintf("nonip/%v/%v", entries, a))
		}
		for _, h := range []string{"", "localhost", "10.0.0.1:80", "[::1]", "::1%", "1.2.3", "1.2.3.4.5", " 10.0.0.1", "10.0.0.1 ", "0x7f.0.0.1", "127.1", "2130706433"} {
			checkContains(r, tn, ref, entries, ipVal{}, false, nil, h, true)
		}
	}

	// ================= Part 1b: entry text classes ====================================================
	textClasses := map[string][]string{
		entryValid: {"10.1.2.3", "0.0.0.0", "255.255.255.255", "10.0.0.0/8", "10.1.2.3/8", "10.1.2.3/0", "1.2.3.4/32", "::", "::1", "::/0", "::1/128",
			"2001:db8::/32", "2001:DB8::1", "2001:0db8:0000:0000:0000:0000:0000:0001", "1:2:3:4:5:6:7:8", "1:2:3:4:5:6:7::", "::2:3:4:5:6:7:8", "1::8",
			"64:ff9b::1.2.3.4", "::1.2.3.4", "1:2:3:4:5:6:1.2.3.4", "fe80::/10", "fc00::/7", "2001:db8::ffff/127", "::fffe:1.2.3.4", "0:0:0:0:0:fffe:0:1/96"},
		entryInvalid: {"", "/", "10.0.0.0/", "/8", "10.0.0", "10.0.0.0.0", "256.0.0.1", "10.0.0.-1", "010.0.0.1", "10.0.0.01", "10.0.0.1/33", "10.0.0.1/-1", "10.0.0.1/+8",
			"10.0.0.1/8/8", "10.0.0.1/ 8", "10.0.0.1 /8", "10.0.0.1/8x", "10.0.0.1/255.0.0.0", "::1/129", "1::2::3", "1:2:3:4:5:6:7:8:9", "1:2:3:4:5:6:7:8::", "12345::1", "g::1", ":1", "1:",
			":::", "1:2:3:4:5:6:7", "1.2.3.4::", "::1.2.3", "::1.2.3.256", "1:2:3:4:5:6:7:1.2.3.4", "localhost", "example.com", "10.0.0.1:80", "[::1]", "[::1]/128", "0x0a.0.0.1",
			"１０.0.0.1", "10,0,0,1", "10.0.0.1\x00", "10.0.0.1\n10.0.0.2", "fe80::1%eth0/64", "::%", "10.0.0.1%eth0", "2130706433", "127.1", "*", "10.0.0.*", "10.0.0.0-10.0.0.255"},
		entryMapped: {"::ffff:10.0.0.1", "::ffff:0a00:0001", "::FFFF:10.0.0.1", "0:0:0:0:0:ffff:10.0.0.1", "0000:0000:0000:0000:0000:ffff:0a00:0001", "::ffff:10.0.0.0/104",
			"::ffff:0.0.0.0/96", "::ffff:0:0/96", "::ffff:10.0.0.1/128", "::ffff:1.2.3.4/0", "::ffff:255.255.255.255"},
		entryLatitude: {" 10.0.0.1", "10.0.0.0/8 ", "\t::1\n", "fe80::1%eth0", "fe80::1%1", "10.0.0.0/08", "::1/064"},
	}
	for class, texts := range textClasses {
		for _, tx := range texts {
			if k, _ := refParseEntry(tx); k != class {
				t.Fatalf("reference self-check: %q classified %s, listed as %s", tx, k, class)
			}
			r.Eval(1)
			r.Distinct("text/" + tx)
			r.Count("entry_texts_"+class, 1)
			checkParse(r, []string{tx})
			checkParse(r, []string{"10.0.0.0/8", tx, "::1"}) // position inside a list must not matter
		}
	}

	// ================= Part 1c: random lists, peers and mutated texts ===================================
	n1 := r.N(6000, 300000)
	for i := 0; i < n1; i++ {
		var entries []string
		for k := 1 + rng.Intn(4); k > 0; k-- {
			var a ipVal
			if rng.Intn(2) == 0 {
				a = v4(byte(rng.Intn(256)), byte(rng.Intn(256)), byte(rng.Intn(256)), byte(rng.Intn(256)))
			} else {
				a.Len = 16
				rng.Read(a.B[:])
				if rng.Intn(3) == 0 { // sparse addresses exercise "::" forms
					for j := 2 + rng.Intn(6); j < 14; j++ {
						a.B[j] = 0
					}
				}
				if a.mapped() {
					a.B[10] = 0
				}
			}
			bits := -1
			if rng.Intn(4) != 0 {
				bits = rng.Intn(8*a.Len + 1)
			}
			tx := prefixText(a, bits, rng.Intn(5))
			if rng.Intn(12) == 0 { // mutate one character: the reference decides the class
				b := []byte(tx)
				const al = "0123456789abcdefABCDEF:./% g-"
				switch rng.Intn(3) {
				case 0:
					b[rng.Intn(len(b))] = al[rng.Intn(len(al))]
				case 1:
					p := rng.Intn(len(b) + 1)
					b = append(b[:p], append([]byte{al[rng.Intn(len(al))]}, b[p:]...)...)
				default:
					p := rng.Intn(len(b))
					b = append(b[:p], b[p+1:]...)
				}
				tx = string(b)
				r.Count("mutated_entry_texts", 1)
			}
			entries = append(entries, tx)
		}
		tn, ref, ok := checkParse(r, entries)
		r.Eval(1)
		r.Distinct("rand/" + strings.Join(entries, ","))
		if !ok {
			continue
		}
		for k := 0; k < 6; k++ {
			// peers near the networks: a network address with low bits randomised / one boundary bit flipped
			p := ref[rng.Intn(len(ref))]
			a := p.Addr
			for b := p.Bits; b < 8*a.Len; b++ {
				if rng.Intn(2) == 0 {
					a = flipBit(a, b)
				}
			}
			if p.Bits > 0 && rng.Intn(2) == 0 {
				a = flipBit(a, rng.Intn(p.Bits))
			}
			if a.Len == 4 && rng.Intn(2) == 0 {
				a = mappedOf(a)
			}
			if a.Len == 16 && !a.mapped() && rng.Intn(4) == 0 {
				a.Zone = "en0"
			}
			addrs, hosts := peerForms(a, rng)
			if rng.Intn(2) == 0 {
				checkContains(r, tn, ref, entries, a, true, addrs[rng.Intn(len(addrs))], "", false)
			} else {
				checkContains(r, tn, ref, entries, a, true, nil, hosts[rng.Intn(len(hosts))], true)
			}
		}
		if r.WantSample() {
			r.Sample(map[string]any{"part": "membership", "trusted": entries, "parsed": tn.String()})
		}
	}

	// ================= Part 2: the wrapped connection ===================================================
	wrng := r.Rng("part2")
	n2 := r.N(6000, 200000)
	trustLists := [][]string{
		{"10.0.0.0/8"}, {"192.168.1.10"}, {"2001:db8:1::/64"}, {"10.1.2.3", "fd00::/8"}, {"0.0.0.0/0"}, {"::/0"}, {"0.0.0.0/0", "::/0"},
		{"203.0.113.0/24", "::1"}, nil, {"127.0.0.1/32"},
	}
	firsts := []string{"v1-tcp4", "v1-tcp6", "v2-tcp4", "v2-tcp6", "v2-local", "v1-unknown", "minecraft", "nothing", "eof"}
	outcomes := map[string]int{}
	for i := 0; i < n2; i++ {
		c := wireCase{Trusted: trustLists[wrng.Intn(len(trustLists))], First: firsts[wrng.Intn(len(firsts))]}
		c.NilWrapper = wrng.Intn(25) == 0
		c.Chunked = wrng.Intn(3) == 0
		c.ReadFirst = wrng.Intn(2) == 0
		c.DefaultTO = wrng.Intn(4) == 0
		effective := c.Trusted
		if len(effective) == 0 {
			effective = config.DefaultProxyProtocolTrustedProxies()
		}
		var ref []prefixVal
		for _, e := range effective {
			k, p := refParseEntry(e)
			if k != entryValid {
				t.Fatalf("part 2 list entry %q is %s", e, k)
			}
			ref = append(ref, p)
		}
		// peer: inside / outside the trusted networks, in several address forms, or not an IP
		var peerAddr net.Addr
		var peerIP ipVal
		isIP := true
		switch k := wrng.Intn(10); {
		case k == 0:
			peerAddr = nonIPPeers[wrng.Intn(len(nonIPPeers)-1)] // not the nil one: a net.Conn has an address
			isIP = false
			c.PeerType = "non-ip"
		default:
			p := ref[wrng.Intn(len(ref))]
			a := p.Addr
			for b := p.Bits; b < 8*a.Len; b++ {
				if wrng.Intn(2) == 0 {
					a = flipBit(a, b)
				}
			}
			if k <= 4 && p.Bits > 0 {
				a = flipBit(a, wrng.Intn(p.Bits)) // just outside
			}
			if k == 5 {
				a = v4(byte(11+wrng.Intn(100)), byte(wrng.Intn(256)), byte(wrng.Intn(256)), byte(1+wrng.Intn(250)))
			}
			c.PeerType = map[int]string{4: "v4", 16: "v6"}[a.Len]
			if a.Len == 4 && wrng.Intn(3) == 0 {
				a = mappedOf(a)
				c.PeerType = "v4-mapped"
			}
			if a.Len == 16 && !a.mapped() && wrng.Intn(4) == 0 {
				a.Zone = "eth0"
				c.PeerType = "v6-zoned"
			}
			addrs, _ := peerForms(a, wrng)
			peerAddr, peerIP = addrs[wrng.Intn(len(addrs))], a
		}
		c.Peer = fmt.Sprintf("%T %v", peerAddr, peerAddr)
		c.PeerTrusted = isIP && !c.NilWrapper && refContains(ref, peerIP)

		payload := mcHandshake(wrng)
		var hdr hdrSpec
		var stream []byte
		switch c.First {
		case "minecraft":
			stream = payload
		case "nothing":
			c.LateBytes = wrng.Intn(2) == 0
			stream = payload
		case "eof":
			stream, payload = nil, nil
		default:
			hdr = buildHeader(wrng, c.First)
			stream = append(append([]byte{}, hdr.Bytes...), payload...)
		}
		var script [][]byte
		var gaps []time.Duration
		switch {
		case c.First == "nothing":
			// silent for longer than the header timeout (10 s default), then the client talks
			gap := 25 * time.Second
			if !c.LateBytes {
				gap = 50 * time.Second // still silent when RemoteAddr is asked for; bytes much later
			}
			script, gaps = [][]byte{stream}, []time.Duration{gap}
		case c.Chunked && len(stream) > 1:
			// A v1 (text) header is sent in one piece: the PROXY protocol spec obliges senders to
			// do so and go-proxyproto deliberately refuses a v1 header that needs a second read.
			if strings.HasPrefix(c.First, "v1-") {
				script = append(script, stream[:len(hdr.Bytes)])
				gaps = append(gaps, 0)
				stream = stream[len(hdr.Bytes):]
			}
			for len(stream) > 0 {
				k := 1 + wrng.Intn(min(len(stream), 9))
				script = append(script, stream[:k])
				gaps = append(gaps, time.Duration(wrng.Intn(20))*time.Millisecond) // total << header timeout
				stream = stream[k:]
			}
		case len(stream) > 0:
			script, gaps = [][]byte{stream}, []time.Duration{0}
		}

		r.LogCase(c)
		obs, wrapErr := runWire(t, c, peerAddr, script, gaps)
		r.Eval(1)
		r.Distinct(fmt.Sprintf("wire/%+v/%x", c, payload))
		if wrapErr != nil {
			r.Violation("wrapper-construction-failed", "newProxyProtocol rejected a valid trusted list: "+wrapErr.Error(), c)
			continue
		}
		w := map[string]any{"case": c, "remote_addr": obs.RemoteAddr, "read_err": fmt.Sprint(obs.Err), "bytes_read": len(obs.Data), "bytes_sent_after_header": len(payload), "virtual_time_to_remote_addr": obs.ElapsedToAddr.String()}
		if !obs.Returned {
			r.Violation("wrapped-conn-never-returns", "RemoteAddr()/Read on the wrapped connection did not return within one virtual minute although the peer had sent everything and closed", w)
			continue
		}
		peerText := peerAddr.String()
		headerPresent := hdr.Bytes != nil
		okRead := obs.Err == nil || errors.Is(obs.Err, io.EOF)
		key := fmt.Sprintf("trusted=%v/%s", c.PeerTrusted, c.First)
		switch {
		case headerPresent && c.PeerTrusted:
			want := hdr.SrcText
			if want == "" {
				want = peerText // LOCAL / UNKNOWN: no address in the header
			}
			if obs.RemoteAddr != want {
				r.Violation("trusted-header-ignored-"+c.PeerType, fmt.Sprintf("trusted peer %s sent a %s header for %s but RemoteAddr() is %s", peerText, hdr.Kind, want, obs.RemoteAddr), w)
			} else if !okRead || string(obs.Data) != string(payload) {
				r.Violation("trusted-header-payload-damaged", fmt.Sprintf("after a %s header from a trusted peer the reader got %d bytes (err %v), sent %d", hdr.Kind, len(obs.Data), obs.Err, len(payload)), w)
			} else {
				r.Count("trusted_header_honoured", 1)
			}
		case headerPresent && !c.PeerTrusted:
			if obs.RemoteAddr != peerText {
				r.Violation("untrusted-header-changes-address-"+c.PeerType, fmt.Sprintf("untrusted peer %s sent a %s header and RemoteAddr() became %s", peerText, hdr.Kind, obs.RemoteAddr), w)
			} else if okRead {
				sig := "untrusted-header-does-not-fail-read"
				if len(obs.Data) == len(payload) {
					sig = "untrusted-header-silently-stripped"
				}
				r.Violation(sig+"-"+c.PeerType, fmt.Sprintf("untrusted peer %s sent a %s header and reading did not fail (%d bytes delivered)", peerText, hdr.Kind, len(obs.Data)), w)
			} else if len(obs.Data) != 0 {
				r.Violation("untrusted-header-bytes-delivered", "reading failed but bytes were delivered first", w)
			} else {
				r.Count("untrusted_header_rejected", 1)
			}
		default: // no header
			if obs.RemoteAddr != peerText {
				r.Violation("headerless-peer-loses-address", fmt.Sprintf("peer %s sent no header but RemoteAddr() is %s", peerText, obs.RemoteAddr), w)
			} else if !okRead || string(obs.Data) != string(payload) {
				r.Violation("headerless-peer-bytes-damaged", fmt.Sprintf("peer sent %d bytes without header, reader got %d (err %v)", len(payload), len(obs.Data), obs.Err), w)
			} else {
				r.Count("headerless_passthrough", 1)
				if c.First == "nothing" {
					r.Count("silent_peer_released_by_virtual_timeout", 1)
					key += fmt.Sprintf("/addr-after-%s", obs.ElapsedToAddr.Round(time.Second))
				}
			}
		}
		outcomes[key]++
		if r.WantSample() && i%5 == 0 {
			r.Sample(w)
		}
	}
	r.Set("wire_outcome_classes", outcomes)
}
