// C41: Connect session principal fields are extracted exactly or rejected.
//
// System under observation: connectutil.ExtractSessionPrincipalWire on a real connect.Session
// whose bytes were injected the two ways the code base does it:
//
//	unmarshal   proto.Unmarshal(b, new(connect.Session))   (what the Connect client does; only
//	            well-formed b gets through, the v2 fields land in the unknown-field region)
//	setunknown  s.ProtoReflect().SetUnknown(b)              (reaches malformed regions too)
//
// Oracle: ref/principalref (dynamicpb over the frozen contract descriptor, cross-checked by a
// hand written scanner; a disagreement between the two is INCONCLUSIVE, never a violation).
//
// Expected outcome per byte string b (fields 1..15 only, as the statement quantifies):
//
//	b malformed, or one of the statement's rules applies
//	    (second envelope, empty / oversized envelope, field 6..12 with a wire type other than
//	    the contract's, envelope without a 16 byte nonce)          -> error. (nil,nil) is
//	    reported as "silent-downgrade-to-no-principal:<rule>", a non-nil result as
//	    "accepted-despite:<rule>".
//	otherwise                                                        -> nil error and every
//	    extracted field equal to the reference's (last value wins). (nil,nil) is read as the
//	    all-zero field set, which is what it means to the caller.
//
// READINGS.
//   - connect_session_nonce is a [16]byte in Gate's result and is documented as a binding input
//     of the envelope; the statement ties it to the envelope too ("envelope without a 16-byte
//     nonce"). It is therefore compared only when an envelope is present. A nonce without an
//     envelope (of any length) is not exposed by Gate; that is counted, not reported.
//   - endpoint_id / organization_id are `string` in the frozen proto3 contract. A reference
//     protobuf parser refuses a message whose string field is not valid UTF-8 (it reads no
//     fields at all), so such a proposal falls under "malformed field encoding": rule
//     invalid-utf8-in-string-field. It has its own signature so that it can be judged apart.
//   - field numbers above 2^29-1 can only arise from byte-level mutation, are outside the
//     statement's quantifier (fields 1..15) and are skipped (counted as out_of_scope).
package c41

import (
	"bytes"
	"encoding/hex"
	"fmt"
	"math/rand"
	"regexp"
	"runtime"
	"strings"
	"sync"
	"sync/atomic"
	"testing"

	"go.minekube.com/connect"
	"go.minekube.com/connect/bedrockprincipal"
	"go.minekube.com/gate/pkg/edition/java/proxy/verifh/lib"
	ref "go.minekube.com/gate/pkg/edition/java/proxy/verifh/ref/principalref"
	"go.minekube.com/gate/pkg/util/connectutil"
	"google.golang.org/protobuf/proto"
	"google.golang.org/protobuf/reflect/protoreflect"
)

// ---- byte string assembly ---------------------------------------------------------------

func putVarint(b []byte, v uint64) []byte {
	for v >= 0x80 {
		b = append(b, byte(v)|0x80)
		v >>= 7
	}
	return append(b, byte(v))
}

// putVarintLong writes v non-minimally with pad extra continuation bytes (still a legal varint).
func putVarintLong(b []byte, v uint64, pad int) []byte {
	n := 0
	for x := v; x >= 0x80; x >>= 7 {
		n++
	}
	if n+1+pad > 10 {
		pad = 10 - n - 1
	}
	if pad <= 0 {
		return putVarint(b, v)
	}
	for v >= 0x80 {
		b = append(b, byte(v)|0x80)
		v >>= 7
	}
	b = append(b, byte(v)|0x80)
	for i := 0; i < pad-1; i++ {
		b = append(b, 0x80)
	}
	return append(b, 0x00)
}

type gen struct {
	rng     *rand.Rand
	legacy  [][]byte // marshalled real Sessions carrying only fields 1..4
	bigEnv  []byte
	hugeEnv []byte
}

func (g *gen) tag(b []byte, num uint64, wt int) []byte {
	if g.rng.Intn(40) == 0 {
		return putVarintLong(b, num<<3|uint64(wt), 1+g.rng.Intn(3))
	}
	return putVarint(b, num<<3|uint64(wt))
}

var edgeVarints = []uint64{0, 1, 2, 3, 127, 128, 776, 1<<31 - 1, 1 << 31, 1<<32 - 1, 1 << 32, 1<<32 + 2, 1<<63 - 1, 1 << 63, 1<<64 - 1, 1<<64 - 2}

func (g *gen) varintValue() uint64 {
	switch g.rng.Intn(4) {
	case 0:
		return edgeVarints[g.rng.Intn(len(edgeVarints))]
	case 1:
		return uint64(g.rng.Intn(1000))
	case 2:
		return uint64(g.rng.Int63())
	}
	return g.rng.Uint64()
}

var utf8Pool = []string{"", "endpoint-1", "org-1", "a", "端点", "emoji😀", "with space", "00000000-0000-4000-8000-000000000000", strings.Repeat("e", 200), "nul\x00inside"}
var badUTF8 = [][]byte{{0xff}, {0xc3, 0x28}, {'a', 0x80, 'b'}, {0xed, 0xa0, 0x80}, {0xf8, 0x88, 0x80, 0x80, 0x80}, {'o', 'k', 0xc0}}

func (g *gen) text() []byte {
	if g.rng.Intn(3) == 0 {
		n := g.rng.Intn(24)
		b := make([]byte, n)
		for i := range b {
			b[i] = "abcdefghijklmnopqrstuvwxyz0123456789-_."[g.rng.Intn(39)]
		}
		return b
	}
	return []byte(utf8Pool[g.rng.Intn(len(utf8Pool))])
}

func (g *gen) raw(n int) []byte {
	b := make([]byte, n)
	g.rng.Read(b)
	return b
}

func (g *gen) envelope() []byte {
	switch g.rng.Intn(200) {
	case 0:
		return g.bigEnv // exactly MaxEnvelopeBytes: still legal
	case 1:
		return g.bigEnv[:len(g.bigEnv)-1]
	}
	if g.rng.Intn(2) == 0 {
		return []byte("eyJhbGciOiJFZERTQSJ9.eyJ2IjoyfQ." + hex.EncodeToString(g.raw(8)))
	}
	return g.raw(1 + g.rng.Intn(80))
}

// value appends a well-formed value of wire type wt; content fits field num where that matters.
func (g *gen) value(b []byte, num uint64, wt int, depth int) []byte {
	switch wt {
	case ref.WtVarint:
		if g.rng.Intn(30) == 0 {
			return putVarintLong(b, g.varintValue(), 1+g.rng.Intn(4))
		}
		return putVarint(b, g.varintValue())
	case ref.WtFixed64:
		return append(b, g.raw(8)...)
	case ref.WtFixed32:
		return append(b, g.raw(4)...)
	case ref.WtBytes:
		var v []byte
		switch num {
		case 1, 2, 7, 8:
			v = g.text()
			if g.rng.Intn(25) == 0 {
				v = badUTF8[g.rng.Intn(len(badUTF8))]
			}
		case 3, 4:
			if g.rng.Intn(4) != 0 {
				v = nil // empty sub-message is valid for Player and Authentication
			} else {
				v = g.raw(g.rng.Intn(6))
			}
		case 9:
			v = g.raw([]int{16, 16, 16, 16, 0, 1, 15, 17, 32, g.rng.Intn(40)}[g.rng.Intn(10)])
		case 12:
			switch g.rng.Intn(12) {
			case 0:
				v = nil
			default:
				v = g.envelope()
			}
		default:
			v = g.raw(g.rng.Intn(20))
		}
		if g.rng.Intn(40) == 0 {
			b = putVarintLong(b, uint64(len(v)), 1+g.rng.Intn(2))
		} else {
			b = putVarint(b, uint64(len(v)))
		}
		return append(b, v...)
	case ref.WtStartGroup:
		if depth < 3 {
			for i, n := 0, g.rng.Intn(3); i < n; i++ {
				b = g.atom(b, depth+1)
			}
		}
		return putVarint(b, num<<3|ref.WtEndGroup)
	}
	return b // WtEndGroup / reserved: no value
}

func (g *gen) num() uint64 {
	if g.rng.Intn(3) == 0 {
		return uint64(1 + g.rng.Intn(15))
	}
	return uint64(6 + g.rng.Intn(7)) // the principal fields
}

// atom appends one field occurrence with an arbitrary (legal) wire type.
func (g *gen) atom(b []byte, depth int) []byte {
	num := g.num()
	wt := []int{0, 1, 2, 3, 5}[g.rng.Intn(5)]
	if want, ok := ref.ContractWireType(num); ok && g.rng.Intn(3) != 0 {
		wt = want
	}
	return g.value(g.tag(b, num, wt), num, wt, depth)
}

// v2 appends the seven principal fields with contract types, in random order, some repeated.
func (g *gen) v2(b []byte, withEnvelope bool, nonceLen int) []byte {
	order := g.rng.Perm(7)
	for _, k := range order {
		num := uint64(6 + k)
		reps := 1
		if num != 12 && g.rng.Intn(5) == 0 {
			reps = 2 + g.rng.Intn(2) // last value wins
		}
		if g.rng.Intn(6) == 0 && num != 12 && num != 9 {
			reps = 0
		}
		for i := 0; i < reps; i++ {
			switch num {
			case 6:
				b = putVarint(g.tag(b, 6, 0), []uint64{0, 1, 2, 2, 2, 3, g.varintValue()}[g.rng.Intn(7)])
			case 7, 8:
				t := g.text()
				b = append(putVarint(g.tag(b, num, 2), uint64(len(t))), t...)
			case 9:
				if nonceLen < 0 {
					continue
				}
				n := nonceLen
				if i < reps-1 && g.rng.Intn(2) == 0 {
					n = g.rng.Intn(40) // an earlier value that must lose
				}
				b = append(putVarint(g.tag(b, 9, 2), uint64(n)), g.raw(n)...)
			case 10, 11:
				b = putVarint(g.tag(b, num, 0), g.varintValue())
			case 12:
				if withEnvelope {
					e := g.envelope()
					b = append(putVarint(g.tag(b, 12, 2), uint64(len(e))), e...)
				}
			}
		}
		if g.rng.Intn(8) == 0 { // undeclared neighbours 5, 13..15 and legacy numbers in between
			n := []uint64{5, 13, 14, 15, 1, 2}[g.rng.Intn(6)]
			wt := []int{0, 1, 2, 3, 5}[g.rng.Intn(5)]
			b = g.value(g.tag(b, n, wt), n, wt, 0)
		}
	}
	return b
}

var faults = []string{"second-envelope", "empty-envelope", "oversized-envelope", "wrong-wire-type", "nonce-missing", "nonce-bad-length",
	"nonce-last-bad", "nonce-first-bad-last-good", "invalid-utf8", "truncated", "varint-overflow", "length-beyond-end", "stray-end-group",
	"unterminated-group", "mismatched-end-group", "reserved-wire-type", "field-number-zero", "envelope-in-group-only", "max-size-envelope"}

func (g *gen) faulty(kind string) []byte {
	b := append([]byte(nil), g.legacy[g.rng.Intn(len(g.legacy))]...)
	ins := func(b []byte, frag []byte) []byte {
		// a fragment is a whole field: put it in front of or behind the v2 block
		if g.rng.Intn(2) == 0 {
			return append(append([]byte(nil), frag...), b...)
		}
		return append(b, frag...)
	}
	env := func() []byte {
		e := g.envelope()
		return append(putVarint(putVarint(nil, 12<<3|2), uint64(len(e))), e...)
	}
	switch kind {
	case "second-envelope":
		return ins(g.v2(b, true, 16), env())
	case "empty-envelope":
		return ins(g.v2(b, false, 16), []byte{12<<3 | 2, 0})
	case "oversized-envelope":
		e := g.hugeEnv[:ref.MaxEnvelopeBytes+1+g.rng.Intn(len(g.hugeEnv)-ref.MaxEnvelopeBytes-1)]
		return ins(g.v2(b, false, 16), append(putVarint(putVarint(nil, 12<<3|2), uint64(len(e))), e...))
	case "max-size-envelope": // boundary: legal
		return ins(g.v2(b, false, 16), append(putVarint(putVarint(nil, 12<<3|2), uint64(len(g.bigEnv))), g.bigEnv...))
	case "wrong-wire-type":
		num := uint64(6 + g.rng.Intn(7))
		want, _ := ref.ContractWireType(num)
		wt := want
		for wt == want {
			wt = []int{0, 1, 2, 3, 5}[g.rng.Intn(5)]
		}
		return ins(g.v2(b, g.rng.Intn(2) == 0, 16), g.value(putVarint(nil, num<<3|uint64(wt)), num, wt, 0))
	case "nonce-missing":
		return g.v2(b, true, -1)
	case "nonce-bad-length":
		return g.v2(b, true, []int{0, 1, 15, 17, 22, 32}[g.rng.Intn(6)])
	case "nonce-last-bad":
		n := []int{0, 15, 17}[g.rng.Intn(3)]
		return append(g.v2(b, true, 16), append(putVarint(putVarint(nil, 9<<3|2), uint64(n)), g.raw(n)...)...)
	case "nonce-first-bad-last-good": // legal: last value wins
		n := []int{0, 15, 17}[g.rng.Intn(3)]
		pre := append(putVarint(putVarint(nil, 9<<3|2), uint64(n)), g.raw(n)...)
		return append(append(b, pre...), g.v2(nil, true, 16)...)
	case "invalid-utf8":
		num := uint64(7 + g.rng.Intn(2))
		v := badUTF8[g.rng.Intn(len(badUTF8))]
		return ins(g.v2(b, g.rng.Intn(2) == 0, 16), append(putVarint(putVarint(nil, num<<3|2), uint64(len(v))), v...))
	case "truncated":
		full := g.v2(b, true, 16)
		return full[:len(b)+g.rng.Intn(len(full)-len(b)+1)]
	case "varint-overflow":
		num := []uint64{6, 10, 11, 5, 13}[g.rng.Intn(5)]
		return ins(g.v2(b, true, 16), append(putVarint(nil, num<<3), 0xff, 0xff, 0xff, 0xff, 0xff, 0xff, 0xff, 0xff, 0xff, byte(2+g.rng.Intn(126))))
	case "length-beyond-end":
		num := []uint64{7, 8, 9, 12, 5, 14, 1}[g.rng.Intn(7)]
		return append(g.v2(b, true, 16), append(putVarint(putVarint(nil, num<<3|2), uint64(5+g.rng.Intn(1<<20))), g.raw(g.rng.Intn(4))...)...)
	case "stray-end-group":
		return ins(g.v2(b, true, 16), putVarint(nil, uint64(1+g.rng.Intn(15))<<3|4))
	case "unterminated-group":
		return append(g.v2(b, true, 16), g.atom(putVarint(nil, uint64([]int{5, 13, 14, 15}[g.rng.Intn(4)])<<3|3), 3)...)
	case "mismatched-end-group":
		return ins(g.v2(b, true, 16), []byte{5<<3 | 3, 13<<3 | 4})
	case "reserved-wire-type":
		return ins(g.v2(b, true, 16), putVarint(nil, uint64(1+g.rng.Intn(15))<<3|uint64(6+g.rng.Intn(2))))
	case "field-number-zero":
		return ins(g.v2(b, true, 16), []byte{byte(g.rng.Intn(6)), 0})
	case "envelope-in-group-only": // legal: a field 12 nested in an undeclared group is no envelope
		grp := append([]byte{5<<3 | 3}, env()...)
		grp = append(grp, 5<<3|4)
		return ins(g.v2(b, false, 16), grp)
	}
	return b
}

// next produces the next byte string(s) of a class; prefixes/mutants come as batches.
func (g *gen) next() (class string, out [][]byte) {
	leg := func() []byte { return append([]byte(nil), g.legacy[g.rng.Intn(len(g.legacy))]...) }
	switch k := g.rng.Intn(40); {
	case k < 8:
		return "valid-v2-with-envelope", [][]byte{g.v2(leg(), true, 16)}
	case k < 12:
		return "valid-v2-without-envelope", [][]byte{g.v2(leg(), false, []int{16, 16, -1, 5}[g.rng.Intn(4)])}
	case k < 13:
		return "v1-legacy-only", [][]byte{leg()}
	case k < 25:
		f := faults[g.rng.Intn(len(faults))]
		return "fault:" + f, [][]byte{g.faulty(f)}
	case k < 34:
		var b []byte
		if g.rng.Intn(2) == 0 {
			b = leg()
		}
		for i, n := 0, g.rng.Intn(10); i < n; i++ {
			b = g.atom(b, 0)
		}
		return "random-atoms", [][]byte{b}
	case k < 35: // truncation at every byte
		var base []byte
		if g.rng.Intn(2) == 0 {
			base = g.v2(nil, true, 16)
		} else {
			for i, n := 0, 2+g.rng.Intn(8); i < n; i++ {
				base = g.atom(base, 0)
			}
		}
		if len(base) > 250 {
			base = base[:250]
		}
		for i := 0; i < len(base); i++ {
			out = append(out, base[:i])
		}
		return "truncation-at-every-byte", out
	case k < 38: // byte substitutions in a valid proposal
		base := g.v2(leg(), g.rng.Intn(4) != 0, 16)
		if len(base) > 600 {
			return "valid-v2-with-envelope", [][]byte{base}
		}
		for i := 0; i < 8; i++ {
			m := append([]byte(nil), base...)
			for j, n := 0, 1+g.rng.Intn(2); j < n; j++ {
				m[g.rng.Intn(len(m))] = byte(g.rng.Intn(256))
			}
			out = append(out, m)
		}
		return "byte-substitution", out
	default: // atoms of a single principal field with every wire type
		num := uint64(6 + g.rng.Intn(7))
		var b []byte
		for _, wt := range g.rng.Perm(6) {
			if wt == 4 {
				continue
			}
			if g.rng.Intn(2) == 0 {
				b = g.value(g.tag(b, num, wt), num, wt, 0)
			}
		}
		return "one-field-every-wire-type", [][]byte{b}
	}
}

// ---- the monitor ------------------------------------------------------------------------

var digits = regexp.MustCompile(`[0-9]+`)
var nonAlnum = regexp.MustCompile(`[^A-Za-z]+`)

func slug(s string) string {
	s = strings.Trim(nonAlnum.ReplaceAllString(digits.ReplaceAllString(s, "N"), "-"), "-")
	if len(s) > 60 {
		s = s[:60]
	}
	return s
}

func safeExtract(s *connect.Session) (w *connectutil.SessionPrincipalWire, err error, pan any) {
	defer func() {
		if p := recover(); p != nil {
			pan = p
		}
	}()
	w, err = connectutil.ExtractSessionPrincipalWire(s)
	return
}

type local struct {
	counts map[string]int
}

var sigSeen sync.Map // signature -> *atomic.Int64

// violation materialises the witness only for the first few cases of a signature.
func violation(r *lib.Run, sig, what string, wit func() map[string]any) {
	c, _ := sigSeen.LoadOrStore(sig, new(atomic.Int64))
	if n := c.(*atomic.Int64).Add(1); n > 3 {
		if n%8192 == 0 {
			r.Violation(sig, what, nil)
		}
		return
	}
	r.Violation(sig, what, wit())
}

func (l *local) c(k string) { l.counts[k]++ }

func witness(path, class string, b []byte, extra map[string]any) map[string]any {
	o := map[string]any{"path": path, "class": class, "len": len(b)}
	if len(b) <= 600 {
		o["bytes_hex"] = hex.EncodeToString(b)
	} else {
		o["bytes_hex_head"] = hex.EncodeToString(b[:300])
		o["bytes_hex_tail"] = hex.EncodeToString(b[len(b)-100:])
	}
	for k, v := range extra {
		o[k] = v
	}
	return o
}

func describe(w *connectutil.SessionPrincipalWire) any {
	if w == nil {
		return nil
	}
	return map[string]any{"protocol": w.Protocol, "endpoint_id": w.EndpointID, "organization_id": w.OrganizationID,
		"nonce_hex": hex.EncodeToString(w.ConnectSessionNonce[:]), "source_protocol_version": w.SourceProtocolVersion,
		"policy_revision": w.PolicyRevision, "envelope_len": len(w.Envelope)}
}

func judge(r *lib.Run, l *local, path, class string, b []byte, w *connectutil.SessionPrincipalWire, err error, pan any, why string, rules []string, want ref.Fields) {
	if pan != nil {
		violation(r, "ExtractSessionPrincipalWire-panics:"+slug(fmt.Sprint(pan)), fmt.Sprint(pan), func() map[string]any { return witness(path, class, b, nil) })
		return
	}
	reason := ""
	if why != ref.OK {
		reason = ref.RuleMalformed + ":" + why
	} else if len(rules) > 0 {
		reason = rules[0]
	}
	if reason != "" {
		l.c(path + ":must_reject")
		if len(rules) <= 1 {
			l.c("rule_alone:" + reason)
		}
		switch {
		case err != nil:
			l.c(path + ":rejected_as_required")
		case w == nil:
			violation(r, "silent-downgrade-to-no-principal:"+reason, "ExtractSessionPrincipalWire returned (nil, nil) for a proposal the statement wants rejected ("+reason+")",
				func() map[string]any {
					return witness(path, class, b, map[string]any{"rules": rules, "malformed": why})
				})
		default:
			violation(r, "accepted-despite:"+reason, "ExtractSessionPrincipalWire returned fields for a proposal the statement wants rejected ("+reason+")",
				func() map[string]any {
					return witness(path, class, b, map[string]any{"rules": rules, "malformed": why, "gate": describe(w)})
				})
			l.c("violating_cases:accepted-despite:" + reason)
		}
		return
	}
	l.c(path + ":must_accept")
	if err != nil {
		violation(r, "rejects-well-formed-proposal:"+slug(err.Error()), "a structurally valid proposal to which no rejection rule applies was rejected: "+err.Error(),
			func() map[string]any { return witness(path, class, b, map[string]any{"error": err.Error()}) })
		return
	}
	got := connectutil.SessionPrincipalWire{}
	if w != nil {
		got = *w
	} else if want.AnyPresent {
		l.c(path + ":nil_result_with_zero_valued_fields")
	}
	mis := ""
	switch {
	case got.Protocol != want.Protocol:
		mis = "protocol"
	case got.EndpointID != want.EndpointID:
		mis = "endpoint_id"
	case got.OrganizationID != want.OrganizationID:
		mis = "organization_id"
	case got.SourceProtocolVersion != want.SourceProtocolVersion:
		mis = "source_protocol_version"
	case got.PolicyRevision != want.PolicyRevision:
		mis = "policy_revision"
	case !bytes.Equal(got.Envelope, want.Envelope):
		mis = "signed_bedrock_principal_v2"
	case len(want.Envelope) > 0 && !bytes.Equal(got.ConnectSessionNonce[:], want.Nonce):
		mis = "connect_session_nonce"
	}
	if mis != "" {
		violation(r, "field-mismatch:"+mis, "extracted "+mis+" differs from what the reference parser reads", func() map[string]any {
			return witness(path, class, b, map[string]any{"gate": describe(w), "reference": map[string]any{"protocol": want.Protocol, "endpoint_id": want.EndpointID,
				"organization_id": want.OrganizationID, "nonce_hex": hex.EncodeToString(want.Nonce), "source_protocol_version": want.SourceProtocolVersion,
				"policy_revision": want.PolicyRevision, "envelope_len": len(want.Envelope)}})
		})
		return
	}
	switch {
	case w == nil:
		l.c(path + ":no_principal")
	case len(want.Envelope) > 0:
		l.c(path + ":fields_equal_with_envelope")
	default:
		l.c(path + ":fields_equal_without_envelope")
		if len(want.Nonce) > 0 {
			l.c("nonce_without_envelope_not_exposed")
		}
	}
}

func sameFields(a *ref.Fields, b ref.Fields) bool {
	return a.Protocol == b.Protocol && a.EndpointID == b.EndpointID && a.OrganizationID == b.OrganizationID &&
		bytes.Equal(a.Nonce, b.Nonce) && a.SourceProtocolVersion == b.SourceProtocolVersion && a.PolicyRevision == b.PolicyRevision &&
		bytes.Equal(a.Envelope, b.Envelope)
}

func TestC41(t *testing.T) {
	r := lib.Start(t, "C41")
	defer r.Finish()
	r.Rule("a case = one byte string assembled from fields 1..15 (biased to 6..12): valid v2 proposals in random field order with repeated scalars (last wins) on top of a real marshalled legacy Session; the same with exactly one fault (19 kinds: second/empty/oversized/max-size envelope, wrong wire type, nonce missing/bad/last-bad/first-bad, invalid UTF-8, truncation, varint overflow, length beyond end, stray/unterminated/mismatched group, reserved wire type, field number 0, envelope only inside a group); random atoms with every wire type incl. nested groups and non-minimal varints; every prefix of a message (truncation at every byte); 1-2 byte substitutions; one principal field with every wire type. Each is injected twice (proto.Unmarshal, SetUnknown). distinct = distinct byte string")
	r.Assume("google.golang.org/protobuf (dynamicpb) over the frozen contract descriptor is the reference parser; a hand written scanner must agree with it or the case is inconclusive")
	r.Assume("MaxEnvelopeBytes = 16384 (Connect SDK bedrockprincipal.MaxEnvelopeBytes)")
	if bedrockprincipal.MaxEnvelopeBytes != ref.MaxEnvelopeBytes {
		r.Inconclusive(fmt.Sprintf("bedrockprincipal.MaxEnvelopeBytes is %d, reference assumes %d", bedrockprincipal.MaxEnvelopeBytes, ref.MaxEnvelopeBytes))
		return
	}

	// real legacy sessions (fields 1..4), marshalled by protobuf-go from the generated types
	var legacy [][]byte
	for _, s := range []*connect.Session{
		{Id: "sess-1"},
		{Id: "sess-2", TunnelServiceAddr: "tunnel.example:443", Player: &connect.Player{Addr: "203.0.113.7:51234", Profile: &connect.GameProfile{Id: "069a79f4-44e9-4726-a5be-fca90e38aaf5", Name: "Notch"}}, Auth: &connect.Authentication{Passthrough: true}},
		{Id: "会话", TunnelServiceAddr: "[2001:db8::1]:443", Player: &connect.Player{Addr: "198.51.100.1:1"}},
		{},
	} {
		b, err := proto.Marshal(s)
		if err != nil {
			r.Inconclusive("cannot marshal legacy session: " + err.Error())
			return
		}
		legacy = append(legacy, b)
	}
	seedRng := r.Rng("envelopes")
	bigEnv := make([]byte, ref.MaxEnvelopeBytes)
	hugeEnv := make([]byte, ref.MaxEnvelopeBytes+4096)
	seedRng.Read(bigEnv)
	seedRng.Read(hugeEnv)

	nCases := r.N(240_000, 36_000_000)
	workers := runtime.NumCPU()
	if workers > 16 {
		workers = 16
	}
	per := nCases / workers
	var wg sync.WaitGroup
	for gi := 0; gi < workers; gi++ {
		wg.Add(1)
		go func(gi int) {
			defer wg.Done()
			g := &gen{rng: r.Rng(fmt.Sprintf("gen-%d", gi)), legacy: legacy, bigEnv: bigEnv, hugeEnv: hugeEnv}
			l := &local{counts: map[string]int{}}
			done := 0
			for done < per {
				class, batch := g.next()
				for _, b := range batch {
					done++
					if done%2048 == 0 {
						r.LogCase(map[string]any{"class": class, "bytes_hex": hex.EncodeToString(b[:min(len(b), 400)]), "len": len(b)})
					}
					l.c("class:" + class)
					fields, why := ref.Scan(b)
					pf, perr := ref.Parse(b)
					var rules []string
					var want ref.Fields
					if why == ref.FieldNumberRange {
						l.c("out_of_scope:field-number-above-2^29-1")
					} else if why != ref.OK {
						l.c("malformed:" + why)
						if perr == nil {
							l.c("oracle_disagreement")
							r.Inconclusive("scanner says " + why + ", dynamicpb parsed " + hex.EncodeToString(b[:min(len(b), 200)]))
							continue
						}
					} else {
						rules, want = ref.Judge(fields)
						utf := false
						for _, ru := range rules {
							utf = utf || ru == ref.RuleUTF8
						}
						if utf != (perr != nil) || (perr == nil && !sameFields(pf, want)) {
							l.c("oracle_disagreement")
							r.Inconclusive(fmt.Sprintf("scanner and dynamicpb disagree (perr=%v) on %s", perr, hex.EncodeToString(b[:min(len(b), 200)])))
							continue
						}
					}
					inScope := why != ref.FieldNumberRange

					// path 1: SetUnknown
					s := &connect.Session{Id: "sess-1"}
					s.ProtoReflect().SetUnknown(protoreflect.RawFields(b))
					w, err, pan := safeExtract(s)
					if inScope || pan != nil {
						judge(r, l, "setunknown", class, b, w, err, pan, why, rules, want)
					}
					// path 2: proto.Unmarshal
					s2 := new(connect.Session)
					if uerr := proto.Unmarshal(b, s2); uerr != nil {
						if why == ref.OK {
							l.c("unmarshal:refused_by_typed_legacy_fields")
						} else {
							l.c("unmarshal:refused_malformed")
						}
					} else if why != ref.OK && inScope {
						l.c("oracle_disagreement")
						r.Inconclusive("scanner says " + why + " but proto.Unmarshal(Session) accepted " + hex.EncodeToString(b[:min(len(b), 200)]))
					} else {
						w, err, pan := safeExtract(s2)
						if inScope || pan != nil {
							judge(r, l, "unmarshal", class, b, w, err, pan, why, rules, want)
						}
					}
					if !r.Thorough() || done%16 == 0 {
						r.DistinctBytes(b)
					}
					if done%499 == 0 && r.WantSample() {
						r.Sample(witness("both", class, b, map[string]any{"malformed": why, "rules": rules}))
					}
				}
			}
			r.Eval(done)
			for k, v := range l.counts {
				r.Count(k, v)
			}
		}(gi)
	}
	wg.Wait()
	r.Set("fault_kinds", len(faults))
}
