#!/bin/bash
# usage: sweep.sh <seed> [tier] [ids...]  - runs every claimed check once, 4-wide, prints one line per check
seed=${1:-1}; tier=${2:-quick}; shift 2 2>/dev/null
cd "$(dirname "$0")"
ids=${@:-$(python3 -c "import json;print(' '.join(c['property_id'] for c in json.load(open('MANIFEST.json'))['checks']))")}
mkdir -p logs/sweep
printf '%s\n' $ids | xargs -P ${SWEEP_P:-4} -I{} sh -c 'rm -f evidence/{}.json; VERIF_SEED='$seed' ./check {} '$tier' > logs/sweep/{}.'$seed'.log 2>&1; rc=$?; ev=missing; [ -s evidence/{}.json ] && ev=written; echo "{} seed='$seed' rc=$rc evidence=$ev $(grep -c "^VIOLATION" logs/sweep/{}.'$seed'.log) violations $(grep -c "^KNOWN-FINDING" logs/sweep/{}.'$seed'.log) known $(grep -h "^INCONCLUSIVE" logs/sweep/{}.'$seed'.log | head -1 | cut -c1-150)"'
