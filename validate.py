#!/opt/veriftools/pyvenv/bin/python
import json,jsonschema,sys,glob
jsonschema.validate(json.load(open('/verif/MANIFEST.json')),json.load(open('/root/.vp/MANIFEST.schema.json')))
es=json.load(open('/root/.vp/EVIDENCE.schema.json'))
bad=0
for f in sorted(glob.glob('/verif/evidence/*.json')):
    try: jsonschema.validate(json.load(open(f)),es)
    except Exception as e: print('INVALID',f,str(e)[:200]); bad=1
print('manifest ok; evidence files checked:',len(glob.glob('/verif/evidence/*.json')))
sys.exit(bad)
