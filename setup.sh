#!/bin/bash
# Builds the monitors once (warms the Go build cache) from files on disk only.
set -u
cd "$(dirname "$0")/harness"
export GOFLAGS=-mod=mod GOPROXY=off
unset GOSUMDB GOTOOLCHAIN
cp /repo/go.sum go.sum
mkdir -p ../build ../logs ../evidence
go version
# plain and race builds of everything (errors are reported by the individual checks)
go test -c -vet=off -tags verif -o /dev/null ./lib/ 2>&1 | tail -3
go build -tags verif ./... 2>&1 | tail -5
go vet -tags verif ./lib/ >/dev/null 2>&1 || true
for d in c*/; do
  d=${d%/}
  go test -c -vet=off -tags verif -o ../build/.warm ./$d >/dev/null 2>&1 || echo "warm build failed: $d"
done
rm -f ../build/.warm
exit 0
