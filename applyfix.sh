#!/bin/bash
# usage: applyfix.sh <diff> <commit message> [test pkgs...]
set -e
export GOFLAGS=-mod=mod GOPROXY=off
cd /repo
d=$1; msg=$2; shift 2
git apply "$d" || git apply -3 "$d"
gofmt -l $(git diff --name-only) || true
go build ./... 
if [ $# -gt 0 ]; then go test -vet=off -count=1 "$@" 2>&1 | tail -15; fi
git commit -qam "$msg"
git log --oneline | head -1
