#!/usr/bin/env python3
"""Regenerates MANIFEST.json from checks.json (+ properties.jsonl for the not_applicable list)."""
import json, os, subprocess
R = os.path.dirname(os.path.abspath(__file__))
import glob
cfg = {}
for f in sorted(glob.glob(os.path.join(R, "checks.d", "*.json"))):
    cfg.update(json.load(open(f)))
props = [json.loads(l) for l in open(os.path.join(R, "properties.jsonl")) if l.strip()]
na_reasons = {}
try:
    na_reasons = json.load(open(os.path.join(R, "not_applicable.json")))
except Exception:
    pass
checks = []
for p in props:
    pid = p["id"]
    if pid not in cfg or pid in na_reasons:
        continue  # not built, or built but not claimed yet (listed in not_applicable.json)
    c = cfg[pid]
    checks.append({
        "property_id": pid,
        "quick_cmd": "./check %s quick" % pid,
        "thorough_cmd": "./check %s thorough" % pid,
        "evidence_file": "/verif/evidence/%s.json" % pid,
        "replay_cmd_template": "./check %s --replay {path}" % pid,
        "engine": c.get("engine", c["pkg"]),
        "level_claimed": {"category": c.get("level", "exploration"), "text": c["level_text"], "design_ref": c.get("design_ref", "DESIGN.md §6 " + pid)},
        "level_note": c["level_note"],
        "technique": c["technique"],
    })
na = [{"property_id": p["id"], "reason": na_reasons.get(p["id"], "monitor not built yet in this round (planned: see DESIGN.md §6)")}
      for p in props if p["id"] not in cfg or p["id"] in na_reasons]
hooks_commits = []
try:
    hooks_commits = [l.strip() for l in open(os.path.join(R, "hook_commits.txt")) if l.strip()]
except Exception:
    pass
man = {
    "version": 1,
    "setup_cmd": "./setup.sh",
    "hooks": {
        "guard": "verif",
        "enable": "go test -tags verif (Go build tag; hook files are add-only verif_hooks*.go with //go:build verif)",
        "baseline_off_cmd": "cd /repo && GOFLAGS=-mod=mod GOPROXY=off go test -vet=off -count=1 -timeout 25m ./...",
        "source_commits": hooks_commits,
        "add_only": True,
    },
    "engines": [
        {"name": "harness", "path": "/verif/harness", "serves_properties": sorted(k for k in cfg.keys() if k not in na_reasons),
         "kind_free_text": "Go test binaries (one package per property) built from /repo's working tree; monitors: reference-model differential oracles, offline history checkers, porcupine, race detector (driver parses GORACE logs against per-property mechanism allowlists), crash/hang watchdogs"},
    ],
    "checks": checks,
    "not_applicable": na,
    "notes": "Driver: ./check <id> <quick|thorough>. known_findings.json lists recorded genuine defects (KNOWN-FINDING lines) and fixed ones. See DESIGN.md.",
}
json.dump(man, open(os.path.join(R, "MANIFEST.json"), "w"), indent=1)
print("checks:", len(checks), "not_applicable:", len(na))
