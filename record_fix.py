#!/usr/bin/env python3
"""usage: record_fix.py <property> <commit> <what failed> [signature ...]"""
import json,sys
prop,commit,what=sys.argv[1:4]; sigs=sys.argv[4:]
p='/verif/known_findings.json'
k=json.load(open(p))
k['fixed'].append({"property":prop,"commit":commit,"signatures":sigs,"what":"fixed: property=%s %s %s"%(prop,commit,what)})
json.dump(k,open(p,'w'),indent=1)
print(len(k['fixed']),'fixed entries')
