#!/usr/bin/env python3
"""Prints the markdown table of kept seeded changes (for DESIGN.md §11) from /verif/seeded/*/meta.json."""
import json,glob,os,re
rows=[]
for d in sorted(glob.glob('/verif/seeded/*/meta.json')):
    m=json.load(open(d)); sid=os.path.basename(os.path.dirname(d))
    c=m.get('confirmed_by_coordinator',{})
    first=c.get('caught_by_quick_check_at_first_try') or []
    now=m.get('caught_now', first)
    summ=(m.get('summary') or '').replace('\n',' ').replace('|','/')
    summ=summ[:150]+('…' if len(summ)>150 else '')
    needs=(m.get('needs_to_manifest') or '').replace('\n',' ').replace('|','/')
    needs=needs[:120]+('…' if len(needs)>120 else '')
    det=(m.get('detection') or ('caught at first try by `./check %s quick`'%m['property'] if first else 'NOT caught')).replace('|','/')
    fin=(m.get('recheck_on_final_tree') or {}).get('result','')
    fin=('caught' if fin.startswith('caught') else fin.split(' (')[0])
    if m.get('recheck_note'): fin+=' — '+m['recheck_note'].replace('|','/')[:160]
    rows.append('| %s | %s | %s | %s | %s |'%(sid,summ,needs,det,fin))
print('| seeded change | what it does | needs | detection when it arrived | on the final tree |\n|---|---|---|---|---|')
print('\n'.join(rows))
print('\n%d seeded changes kept; caught at first try: %d'%(len(rows),sum(1 for d in glob.glob('/verif/seeded/*/meta.json') if json.load(open(d)).get('confirmed_by_coordinator',{}).get('caught_by_quick_check_at_first_try'))))
