#!/usr/bin/env python3
"""Rewrites the block between SEEDED-TABLE-BEGIN/END in DESIGN.md from seeded/*/meta.json."""
import subprocess,re
t=subprocess.run(['/verif/tools/seed_table.py'],capture_output=True,text=True).stdout
p='/verif/DESIGN.md'; s=open(p).read()
a=s.index('SEEDED-TABLE-BEGIN'); b=s.index('SEEDED-TABLE-END')
s=s[:a]+'SEEDED-TABLE-BEGIN\n\n'+t+'\n'+s[b:]
open(p,'w').write(s)
