#!/bin/bash
# usage: seed_verify.sh <id> <m> [checkids...]
# Confirms a seeded change delivered under /tmp/seed/<id>/<m>/ (patch.diff, demo/, meta.json):
#   demo passes on clean HEAD, patch applies + builds, demo fails with patch, existing suite still passes,
# then runs the /verif checks named (default: <id>) in quick tier against the patched tree.
# Writes /tmp/seed/<id>/<m>/verify.json and leaves no worktree behind (unless KEEP=1).
set -u
id=$1; m=$2; shift 2
checks=${@:-$id}
src=${SEED_ROOT:-/tmp/seed}/$id/$m
wt=/tmp/sv/$id-$m${SEED_TAG:-}
export GOFLAGS=-mod=mod GOPROXY=off
unset GOSUMDB GOTOOLCHAIN
mkdir -p /tmp/sv
git -C /repo worktree remove --force $wt >/dev/null 2>&1
git -C /repo worktree add --detach $wt HEAD >/dev/null 2>&1 || { echo "cannot create worktree"; exit 2; }
log=$src/verify.log; : > $log
demo_cmd=$(python3 -c "import json;print(json.load(open('$src/meta.json'))['demo_cmd'])")
res() { echo "$1" | tee -a $log; }
copy_demo() { (cd $src/demo && find . -type f | while read f; do mkdir -p "$wt/$(dirname $f)"; cp "$f" "$wt/$f"; done); }
rm_demo() { (cd $src/demo && find . -type f | while read f; do rm -f "$wt/$f"; done); }

copy_demo
(cd $wt && timeout 1200 bash -c "$demo_cmd") >> $log 2>&1; clean_rc=$?
res "demo_on_clean rc=$clean_rc (want 0)"
(cd $wt && git apply $src/patch.diff) >> $log 2>&1; apply_rc=$?
res "apply rc=$apply_rc"
(cd $wt && go build ./... ) >> $log 2>&1; build_rc=$?
res "build rc=$build_rc"
(cd $wt && timeout 1200 bash -c "$demo_cmd") >> $log 2>&1; patched_rc=$?
res "demo_on_patched rc=$patched_rc (want !=0)"
rm_demo
suite_fail="skipped"
if [ "${SKIP_SUITE:-0}" != 1 ]; then
  (cd $wt && go test -vet=off -count=1 -timeout 25m ./... 2>&1) > $src/suite.log
  suite_fail=$(grep -E '^\s*--- FAIL|^FAIL|^panic:' $src/suite.log | grep -v -E 'TestGeyserDownloadAPI|TestVelocitySyncRecordedGateCommitsResolve' | grep -v -E '^FAIL$' | grep -v -P '^FAIL\tgo.minekube.com/gate(/pkg/edition/bedrock/geyser/managed)?\t' | tr '\n' ';')
  res "suite_failures=[$suite_fail]"
fi
caught=""
for c in $checks; do
  out=$(cd /verif && VERIF_REPO=$wt VERIF_SEED=${VERIF_SEED:-1} ./check $c ${TIER:-quick} 2>&1); rc=$?
  sigs=$(echo "$out" | grep -o "signature=[^ ]*.*" | cut -c1-200 | sort -u | head -5 | tr '\n' '|')
  res "check $c rc=$rc $sigs"
  echo "$out" >> $log
  [ $rc = 1 ] && caught="$caught $c"
done
res "CAUGHT_BY=[$caught ]"
python3 - <<PY
import json
json.dump({"id":"$id","m":"$m","demo_on_clean_rc":$clean_rc,"apply_rc":$apply_rc,"build_rc":$build_rc,"demo_on_patched_rc":$patched_rc,
 "suite_failures":"""$suite_fail""","caught_by":"$caught".split()}, open("$src/verify.json","w"), indent=1)
PY
if [ "${KEEP:-0}" != 1 ]; then
  tag=$(python3 -c "import hashlib;print(hashlib.sha1(b'$wt').hexdigest()[:8])")
  git -C /repo worktree remove --force $wt >/dev/null 2>&1
  rm -rf /verif/build/alt-$tag /verif/build/mod-$tag /verif/build/*.$tag /verif/build/*.$tag.race
fi
