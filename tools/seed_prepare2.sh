#!/bin/bash
# second-round seeds: /tmp/seed2/<id>/{property.json,wt,PROMPT.md}
for id in "$@"; do
  d=/tmp/seed2/$id; mkdir -p $d
  python3 - "$id" > $d/property.json <<'PY'
import json,sys
for l in open('/verif/properties.jsonl'):
    p=json.loads(l)
    if p['id']==sys.argv[1]:
        for k in ('added_in_round','source'): p.pop(k,None)
        print(json.dumps(p,indent=1))
PY
  [ -d $d/wt ] || git -C /repo worktree add --detach $d/wt HEAD >/dev/null 2>&1
  sed "s/__ID__/$id/g" /tmp/seed/PROMPT2.md > $d/PROMPT.md
  echo "$id: $d/wt $(git -C $d/wt rev-parse --short HEAD)"
done
