#!/bin/bash
# Re-runs every kept seeded change against the current /repo HEAD (quick tier, seed 1) and records the outcome
# in seeded/RECHECK.json and in each meta.json ("recheck_on_final_tree").
cd /verif
ls seeded | grep -v RECHECK | xargs -P ${P:-4} -I{} sh -c 'out=$(tools/seed_recheck.sh {} 2>&1 | grep -v WARNING | tail -1); echo "{}|$out"' > /tmp/seed_recheck_all.out
python3 - <<'PY'
import json,re,subprocess
head=subprocess.run(['git','-C','/repo','rev-parse','--short','HEAD'],capture_output=True,text=True).stdout.strip()
res={}
for l in open('/tmp/seed_recheck_all.out', errors='replace'):
    sid,_,out=l.rstrip('\n').partition('|')
    m=re.search(r'rc=(\d+)',out)
    if 'does not apply' in out: st='patch does not apply to HEAD (the code it sits in was rewritten by a later fix)'
    elif m and m.group(1)=='1': st='caught: '+' '.join(re.findall(r'signature="([^"]+)"',out)[:3])
    elif m and m.group(1)=='0': st='NOT caught'
    else: st='check did not decide: '+out[:120]
    res[sid]=st
    p='/verif/seeded/%s/meta.json'%sid
    try:
        d=json.load(open(p)); d['recheck_on_final_tree']={'repo_head':head,'result':st}; json.dump(d,open(p,'w'),indent=1)
    except Exception as e: print(sid,e)
json.dump({'repo_head':head,'results':res},open('/verif/seeded/RECHECK.json','w'),indent=1)
import collections
print(collections.Counter(v.split(':')[0] for v in res.values()))
PY
