#!/usr/bin/env python3
"""usage: seed_note.py <id-m> <key> <text>   - sets meta.json[key] of a kept seeded change (detection notes etc.)"""
import json,sys
d='/verif/seeded/%s/meta.json'%sys.argv[1]
m=json.load(open(d)); m[sys.argv[2]]=sys.argv[3]; json.dump(m,open(d,'w'),indent=1)
