#!/bin/bash
# usage: seed_recheck.sh <id>-<m> [check ids...] : apply a kept seeded change to a scratch worktree of /repo HEAD and run checks (quick) against it
sm=$1; shift; id=${sm%%-*}; checks=${@:-$id}
wt=/tmp/sv/re-$sm
git -C /repo worktree remove --force $wt >/dev/null 2>&1
git -C /repo worktree add --detach $wt HEAD >/dev/null 2>&1
if ! git -C $wt apply /verif/seeded/$sm/patch.diff 2>/dev/null; then echo "$sm: patch does not apply to current HEAD"; git -C /repo worktree remove --force $wt; exit 2; fi
for c in $checks; do
  out=$(cd /verif && VERIF_REPO=$wt VERIF_SEED=${VERIF_SEED:-1} ./check $c ${TIER:-quick} 2>&1); rc=$?
  echo "$sm check $c rc=$rc $(echo "$out" | grep -o 'signature=.*' | cut -c1-160 | sort -u | head -3 | tr '\n' '|')"
done
tag=$(python3 -c "import hashlib;print(hashlib.sha1(b'$wt').hexdigest()[:8])")
git -C /repo worktree remove --force $wt >/dev/null 2>&1
rm -rf /verif/build/alt-$tag /verif/build/mod-$tag /verif/build/*.$tag /verif/build/*.$tag.race
