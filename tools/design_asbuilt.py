#!/usr/bin/env python3
"""Rewrites the block between ASBUILT-BEGIN/END in DESIGN.md from checks.d/*.json (what each monitor does as built)."""
import json,glob,os
rows=[]
for f in sorted(glob.glob('/verif/checks.d/C*.json')):
    d=json.load(open(f))
    for pid,c in d.items():
        rows.append('**%s** (%s%s; technique: %s)\n%s\n*Trust / limits:* %s\n'%(pid,'race build' if c.get('race') else 'plain build',', hooks' if c.get('tags','verif') else ', public/internal API only',c['technique'],c['level_text'],c['level_note']))
p='/verif/DESIGN.md'; s=open(p).read()
a=s.index('ASBUILT-BEGIN'); b=s.index('ASBUILT-END')
s=s[:a]+'ASBUILT-BEGIN\n\n'+'\n'.join(rows)+'\n'+s[b:]
open(p,'w').write(s)
print(len(rows))
