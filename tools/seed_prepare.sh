#!/bin/bash
# usage: seed_prepare.sh <id>...  - creates /tmp/seed/<id>/{property.json,wt} (wt = scratch worktree of /repo HEAD)
for id in "$@"; do
  d=/tmp/seed/$id
  mkdir -p $d
  python3 - "$id" > $d/property.json <<'PY'
import json,sys
for l in open('/verif/properties.jsonl'):
    p=json.loads(l)
    if p['id']==sys.argv[1]:
        for k in ('added_in_round','source'): p.pop(k,None)
        print(json.dumps(p,indent=1))
PY
  [ -d $d/wt ] || git -C /repo worktree add --detach $d/wt HEAD >/dev/null 2>&1
  echo "$id: $d/wt $(git -C $d/wt rev-parse --short HEAD)"
done
