#!/bin/bash
# usage: seed_keep.sh <id> <m>  - copies a confirmed seeded change from /tmp/seed/<id>/<m> to /verif/seeded/<id>-<m>/
id=$1; m=$2; src=${SEED_ROOT:-/tmp/seed}/$id/$m; dst=/verif/seeded/$id-${SEED_TAG:-}$m
[ -f $src/verify.json ] || { echo "not verified: $src"; exit 1; }
mkdir -p $dst; rm -rf $dst/demo; cp $src/patch.diff $dst/; cp -r $src/demo $dst/demo
python3 - "$id" "$m" "$src" "$dst" <<'PY'
import json,sys
id,m,src,dst=sys.argv[1:5]
meta=json.load(open(src+"/meta.json")); v=json.load(open(src+"/verify.json"))
out={"property":id,"variant":m,"summary":meta.get("summary"),"breaks":meta.get("breaks"),
 "needs_to_manifest":meta.get("needs_to_manifest"),"files_changed":meta.get("files_changed"),
 "demo_place":meta.get("demo_place"),"demo_cmd":meta.get("demo_cmd"),
 "author":"independent sub-agent given only the property text and a scratch worktree",
 "author_verified":meta.get("verified"),
 "confirmed_by_coordinator":{"how":"tools/seed_verify.sh %s %s (fresh worktree of /repo HEAD: demo passes; git apply patch.diff; go build ./...; demo fails; go test -vet=off -count=1 ./... shows no failure other than the two offline tests; then VERIF_REPO=<worktree> ./check <id> quick)"%(id,m),
   "demo_on_clean_rc":v["demo_on_clean_rc"],"demo_on_patched_rc":v["demo_on_patched_rc"],"build_rc":v["build_rc"],"suite_failures":v["suite_failures"],
   "caught_by_quick_check_at_first_try":v["caught_by"]}}
try:
    old=json.load(open(dst+"/meta.json")); 
    for k in ("detection",): 
        if k in old: out[k]=old[k]
except Exception: pass
json.dump(out,open(dst+"/meta.json","w"),indent=1)
print(dst, "caught_by=",v["caught_by"])
PY
